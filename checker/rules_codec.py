"""Group CODEC (§5.8) and TAINT1 (§5.4): writer and reader agree; decoded lengths are guarded."""
import re
from collections import deque

from core import method_name, op_local, op_const_bits, op_const_named, place_fields, strip_crate, alias_paths, place_path, mem_loc, rvalue_operands
from engine import rule
from flow import flow_of
from vocab import where, const_comparisons, switch_on_result, MPR
from rules_gc import cmp_bounds

WIDTH = {'u8': 1, 'u16': 2, 'u32': 4, 'u64': 8, 'u128': 16, 'usize': 8, 'i64': 8, 'i32': 4, 'i16': 2}
TMAX = {'u8': 255, 'u16': 65535, 'u32': 4294967295, 'u64': 2 ** 64 - 1}


def visit_order(b):
    order = {}
    dq = deque([b.entry])
    seen = {b.entry}
    i = 0
    while dq:
        p = dq.popleft()
        order[p] = i
        i += 1
        for (q, _l) in b.succ[p]:
            if q not in seen:
                seen.add(q)
                dq.append(q)
    return order


def int_codec_calls(b, direction):
    """ordered [(type, CallSite)] of uN::to_le_bytes / from_le_bytes calls"""
    out = []
    order = visit_order(b)
    for cs in b.calls:
        m = re.match(r'^core::num::<impl (\w+)>::(to|from)_(le|be|ne)_bytes$', cs.name)
        if m and m.group(2) == direction:
            out.append((order.get(cs.point, 1 << 30), m.group(1), m.group(3), cs))
    out.sort(key=lambda x: x[0])
    return [(t, e, cs) for (_o, t, e, cs) in out]


def range_consts(b, agg):
    """(start, end) of a Range/RangeTo/RangeFrom aggregate with constant bounds (None where open/dynamic)."""
    adt = agg['adt']
    vals = {}
    for nm, o in zip(agg.get('fields', []), agg['ops']):
        v = op_const_bits(o)
        if v is None:
            v = b.const_eval(o)
        if v is None:
            ol = op_local(o)
            if ol is not None:
                for x in b.trace_local(ol):
                    if x[0] == 'const' and op_const_bits(x[2]) is not None:
                        v = op_const_bits(x[2])
        vals[nm] = v
    if adt.endswith('ops::RangeTo'):
        return (0, vals.get('end'))
    if adt.endswith('ops::RangeFrom'):
        return (vals.get('start'), None)
    if adt.endswith('ops::Range'):
        return (vals.get('start'), vals.get('end'))
    return (None, None)


def ranges_feeding(b, operand):
    """constant ranges / constant indices on the way to `operand` (backward flow)."""
    fl = flow_of(b)
    back = fl.backward(set(fl.op_nodes(operand)))
    out = []
    idx = []
    for bi, blk in enumerate(b.blocks):
        if not b.live[bi]:
            continue
        for st in blk['stmts']:
            if st['k'] != 'assign' or st['place']['p']:
                continue
            if ('l', st['place']['l']) not in back:
                continue
            rv = st['rv']
            if rv['k'] == 'agg' and rv.get('agg') == 'adt' and re.search(r'ops::Range(To|From)?$', rv['adt']):
                out.append(range_consts(b, rv))
            if rv['k'] == 'use' and rv['op']['k'] in ('copy', 'move'):
                for e in rv['op']['place']['p']:
                    if e['k'] == 'index':
                        for x in b.trace_local(e['local']):
                            if x[0] == 'const' and op_const_bits(x[2]) is not None:
                                idx.append(op_const_bits(x[2]))
                    if e['k'] == 'cindex' and not e['from_end']:
                        idx.append(e['offset'])
    return out, sorted(set(idx))


VIEW_SAME = ('try_into', 'try_from', 'unwrap', 'expect', 'as_ref', 'as_mut', 'as_slice', 'as_mut_slice', 'deref', 'deref_mut', 'borrow', 'borrow_mut', 'into', 'from', 'unwrap_unchecked')


def _const_of(b, op):
    v = op_const_bits(op)
    if v is None:
        v = b.const_eval(op)        # `K + 1`, `END - START` over named constants
    if v is None:
        ol = op_local(op)
        if ol is not None:
            for x in b.trace_local(ol):
                if x[0] == 'const' and op_const_bits(x[2]) is not None:
                    v = op_const_bits(x[2])
    return v


def slice_view(b, l, depth=0):
    """Byte window denoted by the slice / array (reference) held in local l, relative to the buffer it was cut
    from: (root, start, end) with root = ('param', i) | ('local', l) | ('call', point); end may be None (open).
    Follows re-borrows, x[a..b], split_at(k).0/.1, first_chunk, try_into().unwrap(), [x[i], x[i+1], ..]."""
    if l is None or depth > 16:
        return None
    ds = b.defs.get(l, [])
    if not ds:
        return (('param', l), 0, None) if 1 <= l <= b.arg_count else None
    if len(ds) != 1:
        return (('local', l), 0, None)
    (p, kind, data) = ds[0]
    def shift(v, a, e_):
        if v is None:
            return None
        (root, s0, e0) = v
        ns = None if (s0 is None or a is None) else s0 + a
        ne = (None if (s0 is None or e_ is None) else s0 + e_) if e_ is not None else e0
        return (root, ns, ne)
    if kind == 'call':
        cs = data
        m = method_name(cs.name)
        if re.search(r'ops::Index(Mut)?<std::ops::Range', cs.name) or (m in ('index', 'index_mut') and len(cs.args) == 2):
            base = slice_view(b, cs.arg_local(0), depth + 1)
            rl = cs.arg_local(1)
            rng = None
            for o in (b.trace_local(rl) if rl is not None else []):
                if o[0] == 'rv' and o[2]['k'] == 'agg' and o[2].get('agg') == 'adt' and re.search(r'ops::Range(To|From|Full)?$', o[2]['adt']):
                    rng = range_consts(b, o[2])
            is_full = any(o[0] == 'rv' and o[2]['k'] == 'agg' and re.search(r'ops::RangeFull$', o[2].get('adt') or '') for o in (b.trace_local(rl) if rl is not None else []))
            if is_full:
                return base
            if rng is None or base is None or (rng[0] is None):
                # dynamic start (or unknown base): the result is a fresh window, later constant cuts are relative to it
                if rng is not None and rng[0] is None and rng[1] is not None and base is not None and re.search(r'ops::RangeTo', ' '.join(o[2].get('adt') or '' for o in b.trace_local(rl) if o[0] == 'rv' and o[2]['k'] == 'agg')):
                    return shift(base, 0, rng[1])
                return (('view', cs.point), 0, None)
            return shift(base, rng[0], rng[1])
        if m in ('first_chunk', 'first_chunk_mut'):
            mm = re.search(r'first_chunk(_mut)?::<(\d+)>', cs.name)
            base = slice_view(b, cs.arg_local(0), depth + 1)
            return shift(base, 0, int(mm.group(2))) if mm else None
        if m in VIEW_SAME and cs.args:
            return slice_view(b, cs.arg_local(0), depth + 1)
        return (('call', cs.point), 0, None)
    if kind == 'assign' and not data['place']['p']:
        rv = data['rv']
        if rv['k'] in ('use', 'ref', 'cast', 'rawptr'):
            pl = rv['place'] if rv['k'] in ('ref', 'rawptr') else (rv['op']['place'] if rv['op']['k'] in ('copy', 'move') else None)
            if pl is None:
                return None
            proj = [e for e in pl['p'] if e['k'] != 'deref']
            if not proj:
                return slice_view(b, pl['l'], depth + 1)
            flds = [e for e in proj if e['k'] == 'field']
            if len(proj) == 1 and proj[0]['k'] == 'subslice':
                # slice pattern `[first, rest @ ..]` / `[head @ .., last]`: rest = x[from .. len - to]
                base = slice_view(b, pl['l'], depth + 1)
                fr, to = proj[0].get('from', 0), proj[0].get('to', 0)
                if proj[0].get('from_end'):
                    return shift(base, fr, None) if to == 0 else None
                return shift(base, fr, to)
            if len(proj) == 1 and flds:
                # field of a tuple produced by split_at(k) (possibly handed on by whole moves: `let pair = helper()?`)
                src = b.single_def(pl['l'])
                hops_ = 0
                while src and hops_ < 6 and src[1] == 'assign' and not src[2]['place']['p'] and src[2]['rv']['k'] == 'use' \
                        and src[2]['rv']['op']['k'] in ('copy', 'move') and not src[2]['rv']['op']['place']['p']:
                    src = b.single_def(src[2]['rv']['op']['place']['l'])
                    hops_ += 1
                if src and src[1] == 'call' and re.search(r'::split_at(_mut|_checked|_mut_checked|_unchecked)?$', src[2].name):
                    base = slice_view(b, src[2].arg_local(0), depth + 1)
                    k = _const_of(b, src[2].args[1]) if len(src[2].args) > 1 else None
                    if k is None:
                        return None
                    return shift(base, 0, k) if flds[0]['i'] == 0 else shift(base, k, None)
                if src and src[1] == 'call' and re.search(r'::split_first_chunk(_mut)?::<(\d+)>', src[2].name):
                    k = int(re.search(r'::<(\d+)>', src[2].name).group(1))
                    base = slice_view(b, src[2].arg_local(0), depth + 1)
                    return shift(base, 0, k) if flds[0]['i'] == 0 else shift(base, k, None)
                # payload of Some(..) / Ok(..) of a view-preserving call
                return slice_view(b, pl['l'], depth + 1) if flds[0].get('variant') in ('Some', 'Ok', 'Continue') else None
            if all(e['k'] in ('field', 'downcast') for e in proj) and flds and flds[-1].get('variant') in ('Some', 'Ok', 'Continue'):
                return slice_view(b, pl['l'], depth + 1)
            return None
        if rv['k'] == 'agg' and rv.get('agg') == 'array':
            idxs = []
            root = None
            for o in rv['ops']:
                if o['k'] not in ('copy', 'move'):
                    return None
                pl = o['place']
                # `let b0 = data[i]; [b0, ..]`: the element read into a temporary first
                hops_ = 0
                while not pl['p'] and hops_ < 4:
                    d_ = b.single_def(pl['l'])
                    if d_ and d_[1] == 'assign' and not d_[2]['place']['p'] and d_[2]['rv']['k'] == 'use' and d_[2]['rv']['op']['k'] in ('copy', 'move'):
                        pl = d_[2]['rv']['op']['place']
                        hops_ += 1
                    else:
                        break
                ie = [e for e in pl['p'] if e['k'] in ('index', 'cindex')]
                if len(ie) != 1:
                    return None
                if ie[0]['k'] == 'index':
                    v = b.const_eval({'k': 'copy', 'place': {'l': ie[0]['local'], 'p': []}})
                    for x in (b.trace_local(ie[0]['local']) if v is None else []):
                        if x[0] == 'const' and op_const_bits(x[2]) is not None:
                            v = op_const_bits(x[2])
                else:
                    v = None if ie[0].get('from_end') else ie[0]['offset']
                if v is None:
                    return None
                base = slice_view(b, pl['l'], depth + 1)
                if base is None or (root is not None and base[0] != root[0]):
                    return None
                root = base
                idxs.append(v)
            if idxs and idxs == list(range(idxs[0], idxs[0] + len(idxs))) and root is not None:
                return shift(root, idxs[0], idxs[0] + len(idxs))
            return None
        if rv['k'] == 'repeat':
            # `let mut a = [0u8; N]; a.copy_from_slice(&data[o..][..N]); a`: the array is a copy of the one window that
            # fills it (exactly one whole-array fill and no other write through a borrow of it)
            fills = []
            for c in b.calls:
                if re.search(r'::(copy_from_slice|clone_from_slice)$', c.name) and len(c.args) == 2 and _borrow_base(b, c.arg_local(0)) == l:
                    fills.append(c)
            others = [c for c in b.calls if c not in fills and any(b.local_ty(a_).startswith('&mut') and _borrow_base(b, a_) == l for a_ in [op_local(x) for x in c.args] if a_ is not None)]
            if len(fills) == 1 and not others:
                return slice_view(b, fills[0].arg_local(1), depth + 1)
            return None
    return None


def _borrow_base(b, l, depth=0):
    """local whose storage the reference held in l points to, through re-borrows and unsizing casts of the WHOLE
    value (no field / index projection); None otherwise"""
    if l is None or depth > 8:
        return None
    d = b.single_def(l)
    if d is None or d[1] != 'assign' or d[2]['place']['p']:
        return None
    rv = d[2]['rv']
    if rv['k'] == 'ref':
        pl = rv['place']
        if not pl['p']:
            return pl['l']
        if all(e['k'] == 'deref' for e in pl['p']):
            return _borrow_base(b, pl['l'], depth + 1)
        return None
    if rv['k'] in ('use', 'cast') and rv['op']['k'] in ('copy', 'move') and not rv['op']['place']['p']:
        return _borrow_base(b, rv['op']['place']['l'], depth + 1)
    return None


def reader_layout(b):
    """[(type, start, end)] for from_le_bytes calls in reader body b"""
    out = []
    for (t, endian, cs) in int_codec_calls(b, 'from'):
        rs, idx = ranges_feeding(b, cs.args[0])
        w = WIDTH.get(t)
        span = None
        v = slice_view(b, op_local(cs.args[0]))
        if v is not None and v[1] is not None and (v[2] is None or v[2] - v[1] == w):
            out.append((t, endian, (v[1], v[1] + w), cs))
            continue
        for (s, e) in rs:
            if s is not None and e is not None and e - s == w:
                span = (s, e)
        if span is None and idx and len(idx) == w and idx == list(range(idx[0], idx[0] + w)):
            span = (idx[0], idx[0] + w)
        out.append((t, endian, span, cs))
    return out


def writer_layout(b):
    """[(type, span or None)] for to_le_bytes calls in writer body b (span when written into a fixed slice)."""
    fl = flow_of(b)
    out = []
    for (t, endian, cs) in int_codec_calls(b, 'to'):
        tnt = fl.forward(set(fl.call_result_nodes(cs)))
        span = None
        for c2 in b.calls:
            if c2.name.endswith('copy_from_slice') and len(c2.args) > 1 and fl.op_tainted(c2.args[1], tnt):
                v = slice_view(b, op_local(c2.args[0]))
                if v is not None and v[1] is not None and (v[2] is None or v[2] - v[1] == WIDTH.get(t)):
                    span = (v[1], v[1] + WIDTH.get(t))
                    continue
                rs, idx = ranges_feeding(b, c2.args[0])
                for (s, e) in rs:
                    if s is not None and e is not None and e - s == WIDTH.get(t):
                        span = (s, e)
        out.append((t, endian, span, cs))
    return out


def codec_bodies(ctx):
    ws, rs = [], []
    for b in ctx.f.bodies.values():
        if b.generic_dup() or b.is_test:
            continue
        if not (b.path.startswith('frame::') or b.path.startswith('record::') or b.path.startswith('<record::')):
            continue
        if int_codec_calls(b, 'to'):
            ws.append(b)
        if int_codec_calls(b, 'from'):
            rs.append(b)
    return ws, rs


def header_len_const_in(b):
    """value of a const named *HEADER_LEN used in body b (named operand) -> {name: value}"""
    out = {}
    for bi, blk in enumerate(b.blocks):
        if not b.live[bi]:
            continue
        for st in blk['stmts']:
            if st['k'] == 'assign':
                ops = list(rvalue_operands(st['rv']))
                for o in ops:
                    n = op_const_named(o)
                    if n and n.endswith('HEADER_LEN') and op_const_bits(o) is not None:
                        out[n] = op_const_bits(o)
        t = blk['term']
        if t['k'] == 'call':
            for o in t['args']:
                n = op_const_named(o)
                if n and n.endswith('HEADER_LEN') and op_const_bits(o) is not None:
                    out[n] = op_const_bits(o)
    return out


@rule('CD1', ['C07'], floor=4, template='const-agreement')
def cd1(ctx):
    """The size constants are mutually consistent (evaluated by rustc for this configuration)."""
    c = ctx.f.const_value
    blk, fil, frm, hdr = c('block_read_write::BLOCK_NUM_BYTES'), c('rolling::FILE_NUM_BYTES'), c('rolling::FRAME_NUM_BYTES'), c('frame::header::HEADER_LEN')
    if None in (blk, fil, frm, hdr):
        ctx.missing('consts', 'BLOCK_NUM_BYTES / FILE_NUM_BYTES / FRAME_NUM_BYTES / HEADER_LEN not all found')
        return
    ctx.check(fil % blk == 0 and fil >= blk, 'file-multiple-of-block', '-', 'FILE_NUM_BYTES (%d) is a positive multiple of BLOCK_NUM_BYTES (%d)' % (fil, blk), 'FILE_NUM_BYTES (%d) is not a positive multiple of BLOCK_NUM_BYTES (%d): blocks would straddle files' % (fil, blk), nontrivial=False)
    ctx.check(frm == blk, 'bufwriter-block', '-', 'FRAME_NUM_BYTES == BLOCK_NUM_BYTES', 'rolling::FRAME_NUM_BYTES (%d) != BLOCK_NUM_BYTES (%d)' % (frm, blk), nontrivial=False)
    ctx.check(blk - hdr <= 65535 and blk > hdr, 'len-fits-u16', '-', 'largest frame payload (%d) fits the u16 length field' % (blk - hdr), 'BLOCK_NUM_BYTES - HEADER_LEN = %d does not fit the u16 frame length field: long frames would be silently truncated' % (blk - hdr), nontrivial=False)
    # the BufWriter capacity / reader block use the same block constant
    a = ctx.f.adts.get('rolling::directory::RollingReader')
    ok = a is not None and any(f['name'] == 'block' and (str(blk) in f['ty'] or 'BLOCK_NUM_BYTES' in f['ty']) for f in a['variants'][0]['fields'])
    ctx.check(ok, 'reader-block-size', '-', 'the reader\'s block buffer is BLOCK_NUM_BYTES long', 'the reader\'s block buffer is not [u8; BLOCK_NUM_BYTES]', nontrivial=False)


@rule('CD2', ['C07', 'C01'], floor=3, template='predicate-agreement')
def cd2(ctx):
    """Writer and reader decide "no room for a header" with the same predicate: remaining < HEADER_LEN."""
    n = 0
    for b in ctx.f.bodies.values():
        if b.generic_dup():
            continue
        if not (b.path.startswith('frame::writer::FrameWriter') or b.path.startswith('frame::reader::FrameReader')):
            continue
        seen = 0
        for c in const_comparisons(ctx, b, 'frame::header::HEADER_LEN'):
            n += 1
            seen += 1
            ctx.check(c['op'] in ('Lt', 'Ge'), '%s:hdr-cmp#%d' % (b.path, seen), where(b, c['point']), 'comparison normalises to `remaining < HEADER_LEN` (%s)' % c['op'],
                      'header-room predicate is `remaining %s HEADER_LEN`, not `<`/`>=`: with exactly HEADER_LEN bytes left one side pads / skips where the other expects a header (every later entry is lost at the next open)' % {'Le': '<=', 'Gt': '>', 'Eq': '==', 'Ne': '!='}.get(c['op'], c['op']))
        # `remaining.checked_sub(HEADER_LEN)` is the `remaining >= HEADER_LEN` test and the subtraction in one, exact by construction
        for cs in b.calls:
            if re.search(r'core::num::<impl usize>::checked_sub$', cs.name) and len(cs.args) > 1 and (op_const_named(cs.args[1]) or '').endswith('frame::header::HEADER_LEN'):
                n += 1
                seen += 1
                ctx.check(True, '%s:hdr-cmp#%d' % (b.path, seen), where(b, cs.point), 'checked_sub(HEADER_LEN): Some exactly when remaining >= HEADER_LEN', '')
    if n < 3:
        ctx.missing('comparisons', 'expected 3 comparisons with HEADER_LEN in the frame writer/reader, found %d' % n)
    # on the writer side the quantity compared is a FRESH reading of the block writer's position
    # (`wrt.num_bytes_remaining_in_block()`), never a copy kept in the frame writer: a cached figure is only as good as
    # the last update, and an update skipped on an error path (padding written, frame write failed) makes every later
    # frame pad or not pad at the wrong place
    for b in ctx.f.bodies.values():
        if b.generic_dup() or not b.path.startswith('frame::writer::FrameWriter'):
            continue
        fl = flow_of(b)
        k = 0
        for c in const_comparisons(ctx, b, 'frame::header::HEADER_LEN'):
            k += 1
            lv = expr_leaves(b, c['x'])
            fresh = any(x[0] == 'call' and x[1].orig.endswith('BlockWrite::num_bytes_remaining_in_block') for x in lv)
            cached = sorted({mem_loc(x[2]) for x in lv if x[0] == 'place' and (mem_loc(x[2]) or '').startswith('FrameWriter.') and mem_loc(x[2]) != 'FrameWriter.wrt'})
            ctx.check(fresh and not cached, '%s:hdr-room-fresh#%d' % (b.path, k), where(b, c['point']), 'the header-room test reads the block writer\'s position afresh',
                      'the header-room test is made on %s instead of a fresh reading of the block writer\'s position: after a failed write the cached figure is stale and frames are padded / not padded at the wrong place' % (cached or 'a value not read from the block writer'))
    # polarity on the writer side: padding is written exactly when `remaining < HEADER_LEN`
    for b in ctx.f.bodies.values():
        if b.generic_dup() or not b.path.startswith('frame::writer::FrameWriter'):
            continue
        comps = const_comparisons(ctx, b, 'frame::header::HEADER_LEN')
        ws = [cs for cs in b.calls if cs.orig.endswith('BlockWrite::write')]
        if len(ws) >= 2 and comps:
            fl = flow_of(b)
            # the padding write: its slice derives from a repeat/array constant, not from the payload parameter
            for w in ws:
                back = fl.backward(set(fl.op_nodes(w.args[1])), skip_mem=True) if len(w.args) > 1 else set()
                from_param = any(('l', i) in back for i in range(2, b.arg_count + 1))
                if from_param:
                    continue
                okp = False
                for c in comps:
                    for (bj, te, fe) in switch_on_result(b, c):
                        lt_edge = te if c['op'] == 'Lt' else fe if c['op'] == 'Ge' else None
                        ge_edge = fe if c['op'] == 'Lt' else te if c['op'] == 'Ge' else None
                        if lt_edge is not None and b.edge_dominates(lt_edge, w.point) and w.point not in b.reach([ge_edge[1]], avoid=[]) or (lt_edge is not None and b.edge_dominates(lt_edge, w.point)):
                            okp = True
                ctx.check(okp, '%s:padding-on-lt-edge' % b.path, where(b, w.point), 'the zero padding is written on the `remaining < HEADER_LEN` edge',
                          'the end-of-block padding is not written exactly when fewer than HEADER_LEN bytes remain (inverted or missing condition): the reader skips the tail under that condition and would lose sync')


@rule('CD2b', ['C07'], floor=1, template='guard-polarity')
def cd2b(ctx):
    """`remaining - HEADER_LEN` is computed only on the `remaining >= HEADER_LEN` edge."""
    n = 0
    for b in ctx.f.bodies.values():
        if b.generic_dup() or not b.path.startswith('frame::writer::FrameWriter'):
            continue
        subs = []
        for bi, blk in enumerate(b.blocks):
            if not b.live[bi]:
                continue
            for si, st in enumerate(blk['stmts']):
                if st['k'] == 'assign' and st['rv']['k'] == 'binop' and st['rv']['op'].startswith('Sub') and (op_const_named(st['rv']['b']) or '').endswith('frame::header::HEADER_LEN') and not op_const_named(st['rv']['a']):
                    subs.append(b.pstart[bi] + si)
        comps = const_comparisons(ctx, b, 'frame::header::HEADER_LEN')
        for cs in b.calls:
            if re.search(r'core::num::<impl usize>::checked_sub$', cs.name) and len(cs.args) > 1 and (op_const_named(cs.args[1]) or '').endswith('frame::header::HEADER_LEN'):
                n += 1
                ctx.check(True, '%s:sub-on-ge-edge' % b.path, where(b, cs.point), 'remaining.checked_sub(HEADER_LEN): guarded by construction', '')
        for sp in subs:
            n += 1
            ok = False
            for c in comps:
                for (bj, te, fe) in switch_on_result(b, c):
                    ge = te if c['op'] == 'Ge' else fe if c['op'] == 'Lt' else None
                    if ge is not None and b.edge_dominates(ge, sp):
                        ok = True
            ctx.check(ok, '%s:sub-on-ge-edge' % b.path, where(b, sp), 'remaining - HEADER_LEN dominated by `remaining >= HEADER_LEN`',
                      '`remaining - HEADER_LEN` can be evaluated when fewer than HEADER_LEN bytes remain (underflow panic / wrong frame size)')
    if n == 0:
        ctx.missing('sub', 'no `x - HEADER_LEN` in the frame writer')


@rule('CD3', ['C07', 'C01', 'C18'], floor=3, template='sibling-agreement')
def cd3(ctx):
    """Integer fields are encoded and decoded with the same types, endianness, order and offsets."""
    ws, rs = codec_bodies(ctx)
    if not ws or not rs:
        ctx.missing('codec-bodies', 'no to_le_bytes / from_le_bytes bodies found')
        return
    def by_offset(lay):
        # the order that matters is the order of the BYTES; decoding `len` before `checksum` is the same layout
        return sorted(lay, key=lambda x: x[2][0]) if lay and all(x[2] is not None for x in lay) else lay
    wsig = {}
    for b in ws:
        lay = by_offset(writer_layout(b))
        wsig[b.path] = (tuple((t, e) for (t, e, _s, _c) in lay), lay, b)
    rsig = {}
    for b in rs:
        lay = by_offset(reader_layout(b))
        rsig[b.path] = (tuple((t, e) for (t, e, _s, _c) in lay), lay, b)
    used_r = set()
    for wp, (sig, lay, b) in sorted(wsig.items()):
        mod = wp.split('::')[0].lstrip('<')
        cands = [rp for rp, (rs_, rl, rb) in rsig.items() if rs_ == sig and rp.split('::')[0].lstrip('<') == mod and rp not in used_r]
        ok = len(cands) >= 1
        if ok:
            used_r.add(cands[0])
        ctx.check(ok, 'pair:%s' % wp, b.span, 'encoder %s %s has a decoder with the same field sequence (%s)' % (wp, list(sig), cands[:1]),
                  'no decoder in module %s reads the integer sequence %s written by %s (decoders: %s)' % (mod, list(sig), wp, {rp: list(x[0]) for rp, x in rsig.items()}))
        if ok:
            rl = rsig[cands[0]][1]
            rb = rsig[cands[0]][2]
            # reader: contiguous spans
            spans = [s for (_t, _e, s, _c) in rl]
            tiles = all(s is not None for s in spans) and all(spans[i][1] == spans[i + 1][0] for i in range(len(spans) - 1))
            ctx.check(tiles, 'reader-tiles:%s' % cands[0], rb.span, 'decoder reads contiguous constant ranges %s' % spans, 'decoder %s does not read its fields from contiguous constant byte ranges (%s)' % (cands[0], spans))
            # writer spans (when writing into a fixed slice) equal reader spans
            wspans = [s for (_t, _e, s, _c) in lay]
            if any(s is not None for s in wspans):
                ctx.check(wspans == spans, 'offsets:%s' % wp, b.span, 'encoder and decoder use the same byte ranges %s' % spans, 'encoder writes %s but the decoder reads %s' % (wspans, spans))
            # header constant covers the fields
            hc = header_len_const_in(rb)
            if hc and tiles:
                end = spans[-1][1]
                good = all(v in (end, end + 1) for v in hc.values())
                ctx.check(good, 'header-const:%s' % cands[0], rb.span, 'header length constant %s covers the decoded fields (end %d)' % (hc, end), 'header length constant %s does not match the decoded fields (they end at byte %d)' % (hc, end))
    for rp in sorted(set(rsig) - used_r):
        ctx.bad('pair:%s' % rp, rsig[rp][2].span, 'decoder %s %s has no encoder writing the same field sequence' % (rp, list(rsig[rp][0])))


def arm_regions(b, block):
    """{label: exclusive points} for the arms of the switch terminating block"""
    edges = b.switch_edges(block)
    regs = {}
    for (lab, e) in edges:
        regs[lab] = b.reach([e[1]])
    out = {}
    for lab, r in regs.items():
        others = set()
        for l2, r2 in regs.items():
            if l2 != lab:
                others |= r2
        out[lab] = r - others
    return out


def fn_table_enum_to_bool(ctx, b):
    """for `fn(&self) -> bool` over a fieldless enum: {variant: bool}, by evaluating the body on each variant
    (absint: any spelling -- match, matches!, !matches!, ==, helper calls); the syntactic reading is the fall-back"""
    from absint import AbsInt, Path, UNK
    ty = b.local_ty(1).replace('&', '').strip() if b.arg_count >= 1 else ''
    if ty in ctx.f.adts and all(not v['fields'] for v in ctx.f.adts[ty]['variants']):
        ai = AbsInt(ctx)
        tab = {}
        for v in ctx.f.all_variants(ty):
            outs = ai.run(b, Path(b.points[b.entry][0], {1: ('refv', ('adt', ty, v, ()))}, {}, [], {}))
            vals = {repr(p_.env.get(0, UNK)) for (k_, p_) in outs if k_ == 'return'}
            rets = [p_.env.get(0, UNK) for (k_, p_) in outs if k_ == 'return']
            if len(vals) == 1 and rets and isinstance(rets[0], tuple) and rets[0][0] == 'i' and not ai.exhausted:
                tab[v] = bool(rets[0][1])
        if len(tab) == len(ctx.f.all_variants(ty)):
            return tab
    return _fn_table_enum_to_bool_syntactic(ctx, b)


def _fn_table_enum_to_bool_syntactic(ctx, b):
    tab = {}
    for (bi, pl, adt, edges) in b.discr_switches():
        if pl['l'] != 1:
            continue
        regs = {}
        for v, e in edges.items():
            r = b.reach([e[1]])
            for (p, kind, data) in b.defs.get(0, []):
                if p in r and kind == 'assign' and data['rv']['k'] == 'use' and op_const_bits(data['rv']['op']) is not None:
                    # exclusive: not reachable from edges of other variants that lead elsewhere
                    if not any(p in b.reach([e2[1]]) for v2, e2 in edges.items() if v2 != v and e2[1] != e[1]):
                        tab[v] = bool(op_const_bits(data['rv']['op']))
        # `matches!(self, A | B)`: the remaining variants share the otherwise arm
        if 'otherwise' in tab and adt:
            for v in ctx.f.all_variants(adt):
                tab.setdefault(v, tab['otherwise'])
            del tab['otherwise']
    return tab


@rule('CD4', ['C07', 'C08'], floor=4, template='finite-tables')
def cd4(ctx):
    """Frame-type and record-type tables are mutually consistent."""
    FT = 'frame::header::FrameType'
    # (1) from_u8 vs discriminants
    for (fn_suffix, adt) in (('frame::header::FrameType::from_u8', FT), ('<record::RecordType as std::convert::TryFrom<u8>>::try_from', 'record::RecordType')):
        bs = [b for b in ctx.f.bodies.values() if b.name == fn_suffix or b.path == fn_suffix]
        if not bs or adt not in ctx.f.adts:
            ctx.missing('table:%s' % fn_suffix, 'not found')
            continue
        b = bs[0]
        tab = {}
        for bi, blk in enumerate(b.blocks):
            if not b.live[bi] or blk['term']['k'] != 'switch':
                continue
            d = blk['term']['discr']
            if op_local(d) is None or not any(o[0] == 'param' for o in b.trace_local(op_local(d))):
                continue
            for (lab, e) in b.switch_edges(bi):
                if lab == 'otherwise':
                    continue
                r = b.reach([e[1]])
                excl = r - set().union(*[b.reach([e2[1]]) for (l2, e2) in b.switch_edges(bi) if l2 != lab])
                for bj, blk2 in enumerate(b.blocks):
                    for si, st in enumerate(blk2['stmts']):
                        if b.live[bj] and (b.pstart[bj] + si) in excl and st['k'] == 'assign' and st['rv']['k'] == 'agg' and strip_crate(st['rv'].get('adt', '')) == adt:
                            tab[lab] = st['rv']['variant']
        want = {int(v['discr']): v['name'] for v in ctx.f.adts[adt]['variants']}
        ctx.check(tab == want, 'decode-table:%s' % adt.split('::')[-1], b.span, 'byte -> %s table equals the enum discriminants %s' % (adt.split('::')[-1], want),
                  'byte -> %s decoding table %s differs from the discriminants written by the encoder %s' % (adt.split('::')[-1], tab, want))
    # (2) frame_type(first,last) vs is_first / is_last
    ft = [b for b in list(ctx.f.bodies.values()) + list(ctx.f.dropped_helpers) if b.ret_ty == FT and b.arg_count == 2 and b.local_ty(1) == 'bool' and b.local_ty(2) == 'bool']
    isf = ctx.fn('frame::header::FrameType::is_first_frame_of_record')
    isl = ctx.fn('frame::header::FrameType::is_last_frame_of_record')
    prot = frame_protocol(ctx)
    prot_tab = None
    if prot is not None and not prot['exhausted'] and all(len(prot['obs'].get(k_, ())) == 1 and None not in prot['obs'][k_] for k_ in ((True, True), (True, False), (False, True), (False, False))):
        prot_tab = {k_: list(v_)[0] for k_, v_ in prot['obs'].items() if k_[1] is not None}
    if isf and isl and prot_tab is not None:
        # what the writer's loop actually hands to the frame writer for (first round?, nothing remains?), however it is
        # computed (a (bool, bool) table, enums, a method of FrameType ..): must be what the reader's predicates expect
        tf = fn_table_enum_to_bool(ctx, isf[0])
        tl = fn_table_enum_to_bool(ctx, isl[0])
        ok = all(tf.get(v_) == k_[0] and tl.get(v_) == k_[1] for k_, v_ in prot_tab.items())
        ctx.check(ok and len(set(prot_tab.values())) == 4, 'frame-type-roundtrip', prot['body'].span, 'is_first(type written) == first round and is_last(type written) == nothing remains, for all four combinations (%s)' % prot_tab,
                  'the frame types the entry writer emits and is_first/is_last_frame_of_record disagree: %s, is_first %s, is_last %s' % (prot_tab, tf, tl))
    elif not ft or not isf or not isl:
        ctx.missing('frame-type-tables', 'frame_type(bool,bool) / is_first / is_last not found')
    else:
        b = ft[0]
        # evaluate by path enumeration: for each (first,last) follow the switches on the params
        def eval_ft(first, last):
            vals = {1: first, 2: last}
            p = b.entry
            steps = 0
            while steps < 500:
                steps += 1
                st = b.stmt_at(p)
                if st is not None:
                    if st['k'] == 'assign' and st['rv']['k'] == 'agg' and strip_crate(st['rv'].get('adt', '')) == FT and st['place']['l'] == 0:
                        return st['rv']['variant']
                    if st['k'] == 'assign' and st['rv']['k'] == 'use' and not st['place']['p']:
                        ol = op_local(st['rv']['op'])
                        if ol in vals:
                            vals[st['place']['l']] = vals[ol]
                        elif op_const_bits(st['rv']['op']) is not None:
                            vals[st['place']['l']] = bool(op_const_bits(st['rv']['op']))
                    if st['k'] == 'assign' and st['rv']['k'] == 'agg' and st['rv'].get('agg') == 'tuple' and not st['place']['p']:
                        for i, o in enumerate(st['rv']['ops']):
                            ol = op_local(o)
                            if ol in vals:
                                vals[(st['place']['l'], str(i))] = vals[ol]
                    if st['k'] == 'assign' and st['rv']['k'] == 'use' and st['rv']['op']['k'] in ('copy', 'move'):
                        pl = st['rv']['op']['place']
                        if len(pl['p']) == 1 and pl['p'][0]['k'] == 'field' and (pl['l'], str(pl['p'][0]['i'])) in vals and not st['place']['p']:
                            vals[st['place']['l']] = vals[(pl['l'], str(pl['p'][0]['i']))]
                    p = p + 1
                    continue
                t = b.term_at(p)
                if t['k'] == 'switch':
                    d = t['discr']
                    v = None
                    ol = op_local(d)
                    if ol in vals:
                        v = vals[ol]
                    elif d['k'] in ('copy', 'move') and len(d['place']['p']) == 1 and d['place']['p'][0]['k'] == 'field':
                        v = vals.get((d['place']['l'], str(d['place']['p'][0]['i'])))
                    if v is None:
                        return None
                    tgt = None
                    for (sv, tb) in t['targets']:
                        if int(sv) == int(v):
                            tgt = tb
                    if tgt is None:
                        tgt = t['otherwise']
                    p = b.pstart[tgt]
                elif t['k'] == 'goto':
                    p = b.pstart[t['target']]
                else:
                    return None
            return None
        tf = fn_table_enum_to_bool(ctx, isf[0])
        tl = fn_table_enum_to_bool(ctx, isl[0])
        ok = True
        tab = {}
        for first in (True, False):
            for last in (True, False):
                v = eval_ft(first, last)
                tab[(first, last)] = v
                if v is None or tf.get(v) != first or tl.get(v) != last:
                    ok = False
        ctx.check(ok and len(set(tab.values())) == 4, 'frame-type-roundtrip', b.span, 'is_first(frame_type(f,l)) == f and is_last(..) == l for all four combinations (%s)' % tab,
                  'frame_type(first,last) and is_first/is_last_frame_of_record disagree: %s, is_first %s, is_last %s' % (tab, tf, tl))
    # (3) kind -> RecordType (serialize) o RecordType -> kind (deserialize) = identity
    ser = [b for b in ctx.f.bodies.values() if b.name.startswith('<record::MultiPlexedRecord') and b.name.endswith('Serializable<\'_>>::serialize')]
    des = [b for b in ctx.f.bodies.values() if b.name.startswith('<record::MultiPlexedRecord') and b.name.endswith('Serializable<\'_>>::deserialize')]
    if not ser or not des:
        ctx.missing('kind-tables', 'MultiPlexedRecord serialize/deserialize not found')
        return
    s, d = ser[0], des[0]
    k2t = {}
    for (bi, pl, adt, edges) in s.discr_switches():
        if adt != MPR:
            continue
        for k, e in edges.items():
            r = s.reach([e[1]])
            excl = r - set().union(*[s.reach([e2[1]]) for k2, e2 in edges.items() if k2 != k])
            for cs in s.calls:
                if cs.point in excl and cs.node is not None:
                    for a in cs.args:
                        al = op_local(a)
                        if al is not None and s.local_ty(al) == 'record::RecordType':
                            for o in s.trace_local(al):
                                if o[0] == 'rv' and o[2]['k'] == 'agg':
                                    k2t[k] = o[2]['variant']
                        if a['k'] == 'const' and strip_crate(a.get('ty', '')) == 'record::RecordType':
                            v = ctx.f.variant_by_discr('record::RecordType', a['bits']) if 'bits' in a else None
                            if v:
                                k2t[k] = v
            if k not in k2t:
                # the arm only selects the type tag (e.g. builds a tuple), the encoder call follows the match
                tags = set()
                for bj, blk2 in enumerate(s.blocks):
                    for si, st in enumerate(blk2['stmts']):
                        if s.live[bj] and (s.pstart[bj] + si) in excl and st['k'] == 'assign' and st['rv']['k'] == 'agg' and strip_crate(st['rv'].get('adt') or '') == 'record::RecordType':
                            tags.add(st['rv']['variant'])
                if len(tags) == 1:
                    k2t[k] = tags.pop()
    t2k = {}
    for (bi, pl, adt, edges) in d.discr_switches():
        if adt != 'record::RecordType':
            continue
        for t, e in edges.items():
            r = d.reach([e[1]])
            excl = r - set().union(*[d.reach([e2[1]]) for t2, e2 in edges.items() if t2 != t])
            for bj, blk2 in enumerate(d.blocks):
                for si, st in enumerate(blk2['stmts']):
                    if d.live[bj] and (d.pstart[bj] + si) in excl and st['k'] == 'assign' and st['rv']['k'] == 'agg' and strip_crate(st['rv'].get('adt', '')) == MPR:
                        t2k[t] = st['rv']['variant']
    nk = len(ctx.f.adts[MPR]['variants']) if MPR in ctx.f.adts else 4
    ident = bool(k2t) and all(t2k.get(t) == k for k, t in k2t.items()) and len(k2t) == nk
    ctx.check(ident, 'kind-roundtrip', s.span, 'deserialize(serialize(kind)) = kind for all %d kinds (%s)' % (nk, k2t), 'entry kind tables do not compose to the identity: serialize %s, deserialize %s' % (k2t, t2k))


@rule('CD5', ['C18', 'C01'], floor=4, template='structure')
def cd5(ctx):
    """Every entry kind carries its queue, and the decoder fills it from the encoded name."""
    a = ctx.f.adts.get(MPR)
    if not a:
        ctx.missing('adt', 'MultiPlexedRecord not found')
        return
    for v in a['variants']:
        has = any(f['name'] == 'queue' and f['ty'].replace("'a ", '').replace("'_ ", '') in ('&str',) for f in v['fields'])
        ctx.check(has, 'kind:%s' % v['name'], a['span'], '%s carries `queue: &str`' % v['name'], 'entry kind %s does not carry its queue name' % v['name'], nontrivial=False)


@rule('CD7', ['C07'], floor=3, template='guard-dominates-use')
def cd7(ctx):
    """Narrowing casts in the encoders are guarded by a bound that fits the target type."""
    n = 0
    for b in ctx.f.bodies.values():
        if b.generic_dup() or b.is_test:
            continue
        if not (b.path.startswith('frame::header::Header::') or b.path.startswith('record::') or b.path.startswith('<record::')):
            continue
        if not (int_codec_calls(b, 'to') or b.path.endswith('for_payload')):
            continue
        fl = flow_of(b)
        seen = 0
        for bi, blk in enumerate(b.blocks):
            if not b.live[bi]:
                continue
            for si, st in enumerate(blk['stmts']):
                if st['k'] != 'assign' or st['rv']['k'] != 'cast' or st['rv']['cast'] != 'IntToInt':
                    continue
                tgt = st['rv']['ty']
                if tgt not in ('u8', 'u16', 'u32'):
                    continue
                ol = op_local(st['rv']['op'])
                if ol is None or b.local_ty(ol) not in ('usize', 'u64', 'u32'):
                    continue
                if WIDTH.get(b.local_ty(ol), 8) <= WIDTH[tgt]:
                    continue
                n += 1
                seen += 1
                p = b.pstart[bi] + si
                src_back = fl.backward(set(fl.local_sources(ol)))
                src_roots = {x for x in src_back if x[0] == 'l' and 1 <= x[1] <= b.arg_count}
                ok = False
                for bj, blk2 in enumerate(b.blocks):
                    if not b.live[bj] or blk2['term']['k'] != 'switch':
                        continue
                    cb = cmp_bounds(b, bj)
                    if not cb:
                        # comparison with a computed constant (u16::MAX as usize): both operands non-literal
                        c = b.switch_cond(bj)
                        if c and c['kind'] == 'bool':
                            for o in c['origin']:
                                if o[0] == 'rv' and o[2]['k'] == 'binop' and o[2]['op'] in ('Le', 'Lt'):
                                    a_, b_ = o[2]['a'], o[2]['b']
                                    bl = op_local(b_)
                                    cval = None
                                    if bl is not None:
                                        for x in b.trace_local(bl):
                                            if x[0] == 'const' and op_const_bits(x[2]) is not None:
                                                cval = op_const_bits(x[2])
                                            if x[0] == 'rv' and x[2]['k'] == 'cast' and op_const_bits(x[2]['op']) is not None:
                                                cval = op_const_bits(x[2]['op'])
                                    if cval is None:
                                        continue
                                    hi = cval if o[2]['op'] == 'Le' else cval - 1
                                    xr = {x for x in fl.backward(set(fl.op_nodes(a_))) if x[0] == 'l' and 1 <= x[1] <= b.arg_count}
                                    e = b.bool_edges(bj)
                                    if e and hi <= TMAX[tgt] and (xr & src_roots) and b.edge_dominates(e[0], p):
                                        ok = True
                        continue
                    x, bounds, o = cb
                    xr = {y for y in fl.backward(set(fl.op_nodes(x))) if y[0] == 'l' and 1 <= y[1] <= b.arg_count}
                    for e, (lo, hi) in bounds.items():
                        if hi <= TMAX[tgt] and (xr & src_roots) and b.edge_dominates(e, p):
                            ok = True
                ctx.check(ok, '%s:as-%s#%d' % (b.path, tgt, seen), where(b, p), '`as %s` dominated by a bound <= %s::MAX on the same quantity' % (tgt, tgt),
                          'a length is narrowed with `as %s` without a dominating bound check: an over-long value would be silently truncated in the WAL' % tgt)
    if n < 3:
        ctx.missing('casts', 'expected 3 narrowing casts in the encoders, found %d' % n)


# ------------------------------------------------------------------------------------------------
# TAINT1

SINK_RE = r'(::split_at(_mut|_unchecked|_mut_unchecked)?$|Vec::<.*>::(with_capacity|reserve|reserve_exact|resize|set_len)$|::copy_from_slice$|VecDeque::<.*>::(with_capacity|reserve)$|::repeat$)'
INDEX_RE = r'(ops::Index|ops::IndexMut)<std::ops::Range'


def is_getter(b):
    return b.arg_count == 1 and not b.calls and len([x for x in b.blocks if not x['cleanup']]) <= 2


@rule('TAINT1', ['C08', 'C10'], floor=3, template='taint-guard-sink')
def taint1(ctx):
    """A length decoded from WAL bytes is bounds-checked before it sizes a slice or an allocation."""
    n = 0
    for b in ctx.f.bodies.values():
        if b.generic_dup() or b.is_test:
            continue
        fl = flow_of(b)
        groups = []   # list of (label, set of source nodes)
        if b.path.startswith('record::') or b.path.startswith('<record::'):
            for (t, e, cs) in int_codec_calls(b, 'from'):
                # source = usize cast of the decoded integer
                tnt = fl.forward(set(fl.call_result_nodes(cs)))
                casts = [st for bi, blk in enumerate(b.blocks) if b.live[bi] for st in blk['stmts'] if st['k'] == 'assign' and st['rv']['k'] == 'cast' and st['rv']['ty'] == 'usize' and fl.op_tainted(st['rv']['op'], tnt) and not st['place']['p']]
                for st in casts:
                    groups.append(('%s decoded as length' % t, {('l', st['place']['l'])}))
        if b.path.startswith('frame::reader::FrameReader'):
            by = {}
            for cs in b.calls:
                if cs.node is not None and is_getter(ctx.f.bodies[cs.node]) and ctx.f.bodies[cs.node].ret_ty == 'usize' and ctx.f.bodies[cs.node].path.startswith('frame::header::Header::'):
                    al = cs.arg_local(0)
                    base = None
                    if al is not None:
                        for o in b.trace_local(al):
                            if o[0] == 'rv' and o[2]['k'] == 'ref':
                                base = o[2]['place']['l']
                    by.setdefault((cs.node, base), set()).update(fl.call_result_nodes(cs))
            for (node, base), nodes in by.items():
                groups.append(('%s()' % ctx.f.bodies[node].path.split('::')[-1], nodes))
        seen = 0
        for (label, srcs) in groups:
            tnt = fl.forward(srcs, skip_mem=True)   # per-call value: not through self fields (flow-insensitive heap would conflate iterations)
            sinks = []
            for cs in b.calls:
                if re.search(SINK_RE, cs.name) and any(fl.op_tainted(a, tnt) for a in (cs.args if re.search(r'::with_capacity$', cs.name) else cs.args[1:])):
                    sinks.append(cs)
                elif re.search(INDEX_RE, cs.name) and len(cs.args) > 1 and fl.op_tainted(cs.args[1], tnt):
                    sinks.append(cs)
            guards = []   # (safe_edge, unsafe_edge): on safe_edge the decoded quantity is <= the bound it is compared with
            for bj, blk in enumerate(b.blocks):
                if not b.live[bj] or blk['term']['k'] != 'switch':
                    continue
                c = b.switch_cond(bj)
                if c and c['kind'] == 'bool':
                    for o in c['origin']:
                        if o[0] == 'rv' and o[2]['k'] == 'binop' and o[2]['op'] in ('Lt', 'Le', 'Gt', 'Ge'):
                            ta, tb = fl.op_tainted(o[2]['a'], tnt), fl.op_tainted(o[2]['b'], tnt)
                            if ta == tb:
                                continue
                            e = b.bool_edges(bj)
                            if not e:
                                continue
                            op = o[2]['op']
                            # normalise to `tainted OP other`
                            if tb:
                                op = {'Lt': 'Gt', 'Gt': 'Lt', 'Le': 'Ge', 'Ge': 'Le'}[op]
                            # tainted < / <= other  -> true edge is safe ; tainted > / >= other -> false edge is safe
                            safe, unsafe = (e[0], e[1]) if op in ('Lt', 'Le') else (e[1], e[0])
                            guards.append((safe, unsafe))
            # checked slicing: `x.split_at_checked(len)` / `x.get(..len)` -- the Some edge of the match on its result is a safe edge
            CHECKED_RE = r'::(split_at_checked|split_at_mut_checked|get|get_mut|split_first_chunk|first_chunk|checked_sub)$'
            for c2 in b.calls:
                if re.search(CHECKED_RE, c2.name) and any(fl.op_tainted(a, tnt) for a in c2.args[1:]) and c2.dest is not None:
                    for (bj, pl, adt, edges) in b.discr_switches():
                        if adt and adt.endswith('Option') and 'Some' in edges and 'None' in edges:
                            if any(o[0] == 'call' and o[1] is c2 for o in b.trace_local(pl['l'])):
                                guards.append((edges['Some'], edges['None']))
            for s in sinks:
                n += 1
                seen += 1
                ok = any(b.edge_dominates(safe, s.point) and s.point not in b.reach([unsafe[1]]) for (safe, unsafe) in guards)
                ctx.check(ok, '%s:%s:%s#%d' % (b.path, label, method_name(s.name), seen), where(b, s.point), 'sink %s dominated by the edge on which the decoded length fits' % method_name(s.name),
                          'a length read from the WAL (%s) reaches %s without a dominating bounds check: damaged bytes can cause a panic or an unbounded allocation' % (label, method_name(s.name)))
    if n < 3:
        ctx.missing('sinks', 'expected >= 3 length-sized slices/allocations, found %d' % n)


def expr_leaves(b, op, depth=0, seen=None):
    """Leaves of the arithmetic expression tree feeding operand `op` (through copies, casts, binops and
    checked-arithmetic tuples): [('place', point, place) | ('call', cs) | ('const', op) | ('param', l)]"""
    if seen is None:
        seen = set()
    if depth > 20:
        return []
    if op['k'] == 'const':
        return [('const', op)]
    if op['k'] not in ('copy', 'move'):
        return []
    pl = op['place']
    l = pl['l']
    # `.0` of a checked-arithmetic tuple is transparent
    inner = [e for e in pl['p'] if not (e['k'] == 'field' and e.get('adt') in (None, ''))]
    if any(e['k'] == 'deref' for e in pl['p']):
        return [('place', None, pl)]
    if l in seen:
        return []
    seen.add(l)
    ds = b.defs.get(l, [])
    if not ds:
        return [('param', l)]
    out = []
    for (p, kind, data) in ds:
        if kind == 'call':
            out.append(('call', data))
        elif kind == 'assign':
            rv = data['rv']
            if rv['k'] in ('use', 'cast'):
                o = rv['op']
                if o['k'] in ('copy', 'move') and any(e['k'] == 'deref' for e in o['place']['p']):
                    out.append(('place', p, o['place']))
                else:
                    out.extend(expr_leaves(b, o, depth + 1, seen))
            elif rv['k'] == 'binop':
                out.extend(expr_leaves(b, rv['a'], depth + 1, seen))
                out.extend(expr_leaves(b, rv['b'], depth + 1, seen))
            elif rv['k'] == 'unop':
                out.extend(expr_leaves(b, rv['a'], depth + 1, seen))
            else:
                out.append(('other', p, rv))
    return out


def bound_comparisons(ctx, b, const_suffix):
    """Comparisons `x OP bound` in body b where exactly one side is built from the named constant `const_suffix`:
    the bare constant, `K - t` (a term moved to the other side: `len > K - cursor` is `len + cursor > K`, same operator),
    or the result of an argument-less getter whose return value is such an expression (`num_bytes_to_end_of_block()`).
    Returns [dict(point, op, x, bound, res)] with op normalised to read `x OP bound`."""
    from core import op_const_named
    swap = {'Lt': 'Gt', 'Gt': 'Lt', 'Le': 'Ge', 'Ge': 'Le'}
    def has_const(body, op, depth=0):
        for lf in expr_leaves(body, op):
            if lf[0] == 'const' and (op_const_named(lf[1]) or '').endswith(const_suffix):
                return True
            if lf[0] == 'call' and depth < 2 and lf[1].node is not None and lf[1].node in ctx.f.bodies:
                cb = ctx.f.bodies[lf[1].node]
                if cb.arg_count <= 1 and cb.ret_ty in ('usize', 'u64') and len(cb.blocks) < 12 and not cb.loops():
                    if has_const(cb, {'k': 'copy', 'place': {'l': 0, 'p': []}}, depth + 1):
                        return True
        return False
    out = []
    for bi, blk in enumerate(b.blocks):
        if not b.live[bi]:
            continue
        for si, st in enumerate(blk['stmts']):
            if st['k'] == 'assign' and st['rv']['k'] == 'binop' and st['rv']['op'] in swap and not st['place']['p']:
                a, bb = st['rv']['a'], st['rv']['b']
                ca, cb_ = has_const(b, a), has_const(b, bb)
                if cb_ and not ca:
                    out.append({'point': b.pstart[bi] + si, 'op': st['rv']['op'], 'x': a, 'bound': bb, 'res': st['place']['l'], 'via': None})
                elif ca and not cb_:
                    out.append({'point': b.pstart[bi] + si, 'op': swap[st['rv']['op']], 'x': bb, 'bound': a, 'res': st['place']['l'], 'via': None})
    return out


@rule('TAINT2', ['C10', 'C08'], floor=1, template='guard-and-use-same-version')
def taint2(ctx):
    """The bounds check of a frame and the slicing of its payload read the same cursor value."""
    n = 0
    CUR = 'FrameReader.cursor'
    for b in ctx.f.bodies.values():
        if b.generic_dup() or not b.path.startswith('frame::reader::FrameReader'):
            continue
        stores = [p for (p, pl, rv) in b.stores if mem_loc(pl) == CUR]
        # slicing calls whose range start is a read of the cursor
        uses = []
        for cs in b.calls:
            if not re.search(INDEX_RE, cs.name) or len(cs.args) < 2:
                continue
            rl = op_local(cs.args[1])
            # the header peek `[cursor..][..HEADER_LEN]` is not a payload slice (its room is FR7's business)
            is_header_peek = False
            if cs.dest_local() is not None:
                kn = alias_paths(b, cs.dest_local())
                for c2 in b.calls:
                    if re.search(INDEX_RE, c2.name) and len(c2.args) > 1 and c2.arg_local(0) in kn:
                        for o2 in (b.trace_local(op_local(c2.args[1])) if op_local(c2.args[1]) is not None else []):
                            if o2[0] == 'rv' and o2[2]['k'] == 'agg' and o2[2].get('adt', '').endswith('ops::RangeTo') and (op_const_named(o2[2]['ops'][0]) or '').endswith('HEADER_LEN'):
                                is_header_peek = True
            if is_header_peek:
                continue
            for o in (b.trace_local(rl) if rl is not None else []):
                if o[0] == 'rv' and o[2]['k'] == 'agg' and (o[2].get('adt', '').endswith('ops::RangeFrom') or o[2].get('adt', '').endswith('ops::Range')):
                    for lf in expr_leaves(b, o[2]['ops'][0]):
                        if lf[0] == 'place' and mem_loc(lf[2]) == CUR and lf[1] is not None:
                            uses.append((cs, lf[1]))
        if not uses:
            continue
        # guards: comparisons against BLOCK_NUM_BYTES (or any bound) whose expression has a cursor leaf and a header-length leaf
        guards = []
        for bi, blk in enumerate(b.blocks):
            if not b.live[bi]:
                continue
            for si, st in enumerate(blk['stmts']):
                if st['k'] == 'assign' and st['rv']['k'] == 'binop' and st['rv']['op'] in ('Lt', 'Le', 'Gt', 'Ge'):
                    lv = expr_leaves(b, st['rv']['a']) + expr_leaves(b, st['rv']['b'])
                    cur_reads = [x[1] for x in lv if x[0] == 'place' and mem_loc(x[2]) == CUR and x[1] is not None]
                    # a helper such as num_bytes_to_end_of_block(&self) reads the cursor at its call point
                    for x in lv:
                        if x[0] == 'call' and x[1].node is not None:
                            hb = ctx.f.bodies[x[1].node]
                            if not ctx.E.maywrite().get(hb.id) and ('m', CUR) in flow_of(hb).backward({('l', 0)}):
                                cur_reads.append(x[1].point)
                    has_len = any(x[0] == 'call' and x[1].node is not None and is_getter(ctx.f.bodies[x[1].node]) and ctx.f.bodies[x[1].node].path.startswith('frame::header::Header::') for x in lv)
                    if cur_reads and has_len:
                        guards.append((b.pstart[bi] + si, cur_reads))
        for (cs, p_use) in uses:
            # only payload slices: those followed by a length-sized slice are covered by TAINT1; all cursor slices after a header was decoded count
            if not any(g for g in guards):
                continue
            n += 1
            ok = False
            why = 'no bounds check reads the cursor'
            for (gp, reads) in guards:
                if not b.dominates(gp, cs.point):
                    continue
                for r in reads:
                    between = [s for s in stores if s in b.reach_after(r) and p_use in b.reach([s]) and s != p_use]
                    if not between:
                        ok = True
                    else:
                        why = 'the cursor is modified (at %s) between the bounds check\'s read of it and the slicing' % b.loc(between[0])
            ctx.check(ok, '%s:slice@cursor#%d' % (b.path, n), where(b, cs.point), 'bounds check and slice use the same cursor value',
                      'the frame bounds check and the payload slicing do not see the same cursor: %s (a frame length within HEADER_LEN of the block end passes the check and panics in the slice)' % why)
    if n == 0:
        ctx.missing('cursor-slices', 'no cursor-based slicing guarded by a length check found in the frame reader')


def appended_content_params(b):
    """indices of the parameters of encoder body b whose CONTENT (the bytes themselves, through re-borrows and
    content-preserving views such as as_bytes) is appended to a `&mut Vec<u8>` output"""
    def content_root(l, depth=0):
        # follow re-borrows and content-preserving views (as_bytes, deref, as_ref, chunk) back to a parameter
        if l is None or depth > 10:
            return None
        if 1 <= l <= b.arg_count and not b.defs.get(l):
            return l
        for (p_, kind, data) in b.defs.get(l, []):
            if kind == 'call' and method_name(data.name) in ('as_bytes', 'deref', 'as_ref', 'as_slice', 'as_str', 'chunk', 'borrow'):
                return content_root(data.arg_local(0), depth + 1)
            if kind == 'assign' and not data['place']['p']:
                rv = data['rv']
                pl = rv['place'] if rv['k'] == 'ref' else (rv['op']['place'] if rv['k'] in ('use', 'cast') and rv['op']['k'] in ('copy', 'move') else None)
                if pl is not None and all(e['k'] == 'deref' for e in pl['p']):
                    return content_root(pl['l'], depth + 1)
        return None
    content_params = set()
    for cs in b.calls:
        al = cs.arg_local(0)
        if al is not None and b.local_ty(al).startswith('&mut std::vec::Vec<u8>') and re.search(r'Vec::<u8>::(push|extend_from_slice|extend|append|insert|resize)$|Extend<.*>>::extend', cs.name):
            for a in cs.args[1:]:
                r_ = content_root(op_local(a))
                if r_ is not None:
                    content_params.add(r_)
    return content_params


@rule('CD8', ['C07', 'C01', 'C12'], floor=3, template='must-flow')
def cd8(ctx):
    """Every input of an encoder reaches the output buffer; the payload of a frame reaches the block writer."""
    n = 0
    for b in ctx.f.bodies.values():
        if b.generic_dup() or b.is_test or b.is_closure:
            continue
        if not (b.path.startswith('record::') or b.path.startswith('<record::')):
            continue
        if not int_codec_calls(b, 'to'):
            continue
        fl = flow_of(b)
        outs = [i for i in range(1, b.arg_count + 1) if b.local_ty(i).startswith('&mut std::vec::Vec<u8>')]
        if not outs:
            continue
        sink_nodes = set()
        for cs in b.calls:
            al = cs.arg_local(0)
            if al is not None and b.local_ty(al).startswith('&mut std::vec::Vec<u8>') and re.search(r'Vec::<u8>::(push|extend_from_slice|extend|append|insert|resize)$|Extend<.*>>::extend', cs.name):
                for a in cs.args[1:]:
                    sink_nodes |= fl.backward(set(fl.op_nodes(a)), skip_mem=True)
        # a batch encoder gives EVERY item its header: from one `next()` of the item iterator the loop cannot come round to
        # the following one without having appended an integer field (position / length) -- an "empty payload, nothing
        # to copy" early exit drops the item, header included, and the batch is logged with a hole
        nexts = [cs for cs in b.calls if cs.name.endswith('as std::iter::Iterator>::next') and cs.dest_local() is not None]
        if nexts:
            ints = [c for (_t, _e, c) in int_codec_calls(b, 'to')]
            t_int = set()
            for c in ints:
                t_int |= fl.forward(set(fl.call_result_nodes(c)))
            hdr_sinks = [cs.point for cs in b.calls if cs.arg_local(0) is not None and b.local_ty(cs.arg_local(0)).startswith('&mut std::vec::Vec<u8>')
                         and re.search(r'Vec::<u8>::(push|extend_from_slice|extend|append)$|Extend<.*>>::extend', cs.name) and any(fl.op_tainted(a, t_int) for a in cs.args[1:])]
            for kx, nx in enumerate(nexts):
                none_edges = [edges['None'] for (bi_, pl_, adt_, edges) in b.discr_switches() if pl_['l'] == nx.dest_local() and not pl_['p'] and 'None' in edges]
                if not hdr_sinks:
                    continue
                r_ = b.reach_after(nx.point, avoid=hdr_sinks, avoid_edges=none_edges)
                if nx.point not in b.reach_after(nx.point):
                    continue        # not in a loop
                n += 1
                ctx.check(nx.point not in r_, '%s:every-item-gets-its-header#%d' % (b.path, kx + 1), where(b, nx.point), 'every item the iterator yields is given its header before the next one is fetched',
                          'the batch encoder can go on to the next item without having appended the header of the current one (an early exit for some items): the batch would be logged, and recovered, with a hole',
                          detail={'path': b.witness(nx.point, nx.point, avoid=hdr_sinks, avoid_edges=none_edges)} if nx.point in r_ else None)
        content_params = appended_content_params(b)
        # Buf-typed payloads (no slice parameter to root at): the bytes handed out by Buf::chunk are what must be appended
        chunk_calls = [cs for cs in b.calls if method_name(cs.name) == 'chunk' and 'Buf' in cs.name]
        if chunk_calls:
            def chunk_root(l, depth=0):
                if l is None or depth > 10:
                    return False
                for (p_, kind, data) in b.defs.get(l, []):
                    if kind == 'call' and method_name(data.name) == 'chunk' and 'Buf' in data.name:
                        return True
                    if kind == 'call' and method_name(data.name) in ('deref', 'as_ref', 'as_slice', 'borrow'):
                        if chunk_root(data.arg_local(0), depth + 1):
                            return True
                    if kind == 'assign' and not data['place']['p']:
                        rv = data['rv']
                        pl = rv['place'] if rv['k'] == 'ref' else (rv['op']['place'] if rv['k'] in ('use', 'cast') and rv['op']['k'] in ('copy', 'move') else None)
                        if pl is not None and all(e['k'] == 'deref' for e in pl['p']) and chunk_root(pl['l'], depth + 1):
                            return True
                return False
            n += 1
            appended = False
            for cs in b.calls:
                al = cs.arg_local(0)
                if al is not None and b.local_ty(al).startswith('&mut std::vec::Vec<u8>') and re.search(r'Vec::<u8>::(extend_from_slice|extend|append)$|Extend<.*>>::extend', cs.name):
                    if any(chunk_root(op_local(a)) for a in cs.args[1:]):
                        appended = True
            ctx.check(appended, '%s:buf-content' % b.path, b.span, 'the bytes handed out by Buf::chunk are appended to the output buffer',
                      'the payload bytes (Buf::chunk) are never appended to the output buffer, only values derived from them (e.g. the length): the WAL entry would announce a payload it does not contain')
        for i in range(1, b.arg_count + 1):
            if i in outs:
                continue
            n += 1
            nm = b.debug_names.get(i, '_%d' % i)
            ty = b.local_ty(i)
            if ty in ('&str', '&[u8]') and not b.path.endswith('serialize_with_pos'):
                ctx.check(i in content_params, '%s:input:%s' % (b.path, nm), b.span, 'the bytes of `%s` are appended to the output buffer' % nm,
                          'the content of encoder input `%s` is never appended to the output buffer (only derived values such as its length are): the field would be missing from the WAL entry' % nm)
                continue
            ctx.check(('l', i) in sink_nodes, '%s:input:%s' % (b.path, nm), b.span, 'encoder input `%s` is appended to the output buffer' % nm,
                      'encoder input `%s` never reaches the output buffer: the field would be missing from the WAL entry' % nm)
    # frame writer: payload and header both reach the slice written
    for b in ctx.f.bodies.values():
        if b.generic_dup() or not b.path.startswith('frame::writer::FrameWriter'):
            continue
        ws = [cs for cs in b.calls if cs.orig.endswith('BlockWrite::write')]
        pay = [i for i in range(2, b.arg_count + 1) if b.local_ty(i) == '&[u8]']
        if not ws or not pay:
            continue
        fl = flow_of(b)
        n += 1
        t = fl.forward(set(fl.local_sources(pay[0])))
        hdr = [cs for cs in b.calls if cs.path.endswith('Header::for_payload')]
        th = set()
        for h in hdr:
            th |= fl.forward(set(fl.call_result_nodes(h)))
        from rules_bytes import ref_root
        copies = [c for c in b.calls if c.name.endswith('copy_from_slice') and len(c.args) > 1 and ref_root(b, op_local(c.args[1])) == ('param', pay[0])]
        okp = any(any(b.dominates(c.point, w.point) for w in ws) for c in copies)
        okh = bool(hdr) and any(len(w.args) > 1 and fl.op_tainted(w.args[1], th) for w in ws)
        ctx.check(okp and okh, '%s:frame-content' % b.path, b.span, 'the slice handed to the block writer carries the header and the payload',
                  'the frame handed to the block writer does not contain the %s' % ('payload' if not okp else 'header'))
    # fixed-layout encoders (&self -> &mut [u8]): every field of the struct is written
    for b in ctx.f.bodies.values():
        if b.generic_dup() or not b.path.startswith('frame::header::') or not int_codec_calls(b, 'to') or b.arg_count < 2 or not b.local_ty(2).startswith('&mut [u8]'):
            continue
        adt = re.sub(r'^&(mut )?', '', b.local_ty(1))
        a = ctx.f.adts.get(adt)
        if not a:
            continue
        fl = flow_of(b)
        # sinks: stores through dest and copy_from_slice on slices of dest
        sink_nodes = set()
        for (p, pl, rv) in b.stores:
            v = slice_view(b, pl['l'])
            if (pl['l'] == 2 or (v is not None and v[0] == ('param', 2))) and rv['k'] == 'use':
                sink_nodes |= fl.backward(set(fl.op_nodes(rv['op'])), skip_mem=False)
        for c in b.calls:
            if c.name.endswith('copy_from_slice') and len(c.args) > 1:
                sink_nodes |= fl.backward(set(fl.op_nodes(c.args[1])), skip_mem=False)
        for f in a['variants'][0]['fields']:
            n += 1
            loc = ('m', '%s.%s' % (adt.split('::')[-1], f['name']))
            ctx.check(loc in sink_nodes, '%s:field:%s' % (b.path, f['name']), b.span, 'field `%s` is written to the output' % f['name'],
                      'field `%s` of %s is never written by its encoder' % (f['name'], adt.split('::')[-1]))
    if n < 3:
        ctx.missing('encoders', 'expected the record / batch encoders and the frame writer')


@rule('CD9', ['C07', 'C01'], floor=2, template='predicate-agreement')
def cd9(ctx):
    """Size predicates are strict on the right side: a frame may end exactly at the block end, a write may
    fill a file exactly (the reader relies on both)."""
    n = 0
    # reader: reject iff cursor + len > BLOCK_NUM_BYTES
    for b in ctx.f.bodies.values():
        if b.generic_dup() or not b.path.startswith('frame::reader::FrameReader'):
            continue
        for c in bound_comparisons(ctx, b, 'BLOCK_NUM_BYTES'):
            lv = expr_leaves(b, c['x'])
            has_len = any(x[0] == 'call' and x[1].node is not None and ctx.f.bodies[x[1].node].path.startswith('frame::header::Header::') for x in lv)
            if not has_len:
                continue
            n += 1
            rej = None
            for (bj, te, fe) in switch_on_result(b, c):
                rej_edge = te if c['op'] in ('Gt', 'Ge') else fe
                r = b.reach([rej_edge[1]])
                errs = [e for e in b.exits() if e['point'] in r]
                rej = bool(errs) and all(e['kind'] == 'err' for e in errs)
            ctx.check(c['op'] in ('Gt', 'Le') and rej is not False, '%s:frame-fits' % b.path, where(b, c['point']), 'frame rejected iff cursor + len > BLOCK_NUM_BYTES (a frame may end exactly at the block end)',
                      'the frame-fits test is `cursor + len %s BLOCK_NUM_BYTES`: frames ending exactly at the block end (which the writer produces) would be rejected as corruption' % {'Ge': '>=', 'Lt': '<', 'Eq': '==', 'Ne': '!='}.get(c['op'], c['op']))
    # writer: roll over iff offset + len > FILE_NUM_BYTES
    for b in ctx.f.bodies.values():
        if b.generic_dup() or not (b.path.startswith('<rolling::directory::RollingWriter') or b.path.startswith('rolling::directory::RollingWriter')):
            continue
        for c in const_comparisons(ctx, b, 'FILE_NUM_BYTES'):
            lv = expr_leaves(b, c['x'])
            if not any(x[0] == 'place' and mem_loc(x[2]) == 'RollingWriter.offset' for x in lv):
                continue
            n += 1
            ctx.check(c['op'] in ('Gt', 'Le'), '%s:file-full' % b.path, where(b, c['point']), 'roll-over iff offset + len > FILE_NUM_BYTES (a write may fill the file exactly)',
                      'the roll-over test is `offset + len %s FILE_NUM_BYTES`: a write that would exactly fill the file rolls early and leaves a zero tail, which the reader takes for the end of the log' % {'Ge': '>=', 'Lt': '<'}.get(c['op'], c['op']))
    if n < 2:
        ctx.missing('predicates', 'expected the frame-fits test of the reader and the file-full test of the writer')


@rule('CD10', ['C01', 'C07'], floor=2, template='guard-exactness')
def cd10(ctx):
    """A decoded length is rejected only when it EXCEEDS what is left: a field that ends exactly at the
    end of the entry (empty payload, last record of a batch) is what the encoder produces."""
    n = 0
    for b in ctx.f.bodies.values():
        if b.generic_dup() or b.is_test or b.is_closure:
            continue
        if not (b.path.startswith('record::') or b.path.startswith('<record::')):
            continue
        fl = flow_of(b)
        for (t, e, cs) in int_codec_calls(b, 'from'):
            tnt0 = fl.forward(set(fl.call_result_nodes(cs)))
            casts = [st for bi, blk in enumerate(b.blocks) if b.live[bi] for st in blk['stmts'] if st['k'] == 'assign' and st['rv']['k'] == 'cast' and st['rv']['ty'] == 'usize' and fl.op_tainted(st['rv']['op'], tnt0) and not st['place']['p']]
            for st in casts:
                src = st['place']['l']
                tnt = fl.forward({('l', src)}, skip_mem=True)
                # checked slicing (get / split_at_checked / split_off-style Option APIs) is exact by construction
                for c2 in b.calls:
                    if re.search(r'::(split_at_checked|split_at_mut_checked|get|split_first_chunk|first_chunk)$', c2.name) and any(fl.op_tainted(a, tnt) for a in c2.args[1:]):
                        n += 1
                        ctx.check(True, '%s:%s:checked#%s' % (b.path, b.debug_names.get(src, '_%d' % src), method_name(c2.name)), where(b, c2.point), 'decoded length used through a checked slicing API', '')
                for bj, blk in enumerate(b.blocks):
                    if not b.live[bj] or blk['term']['k'] != 'switch':
                        continue
                    c = b.switch_cond(bj)
                    if not (c and c['kind'] == 'bool'):
                        continue
                    for o in c['origin']:
                        if not (o[0] == 'rv' and o[2]['k'] == 'binop' and o[2]['op'] in ('Lt', 'Le', 'Gt', 'Ge')):
                            continue
                        ta, tb = fl.op_tainted(o[2]['a'], tnt), fl.op_tainted(o[2]['b'], tnt)
                        if ta == tb:
                            continue
                        side_t, side_o = (o[2]['a'], o[2]['b']) if ta else (o[2]['b'], o[2]['a'])
                        # exactness is only decidable when both sides are plain: the decoded length itself against a slice length
                        lt = expr_leaves(b, side_t)
                        lo = expr_leaves(b, side_o)
                        def arith(op_):
                            if op_['k'] not in ('copy', 'move'):
                                return False
                            for (p_, kind, data) in b.defs.get(op_['place']['l'], []):
                                if kind == 'assign' and data['rv']['k'] == 'binop':
                                    return True
                            return False
                        if arith(side_t) or arith(side_o):
                            continue
                        is_len = len(lo) == 1 and lo[0][0] == 'call' and method_name(lo[0][1].name) == 'len'
                        if not is_len or not any(x[0] == 'call' and x[1] is cs for x in lt):
                            continue
                        op = o[2]['op']
                        if tb:
                            op = {'Lt': 'Gt', 'Gt': 'Lt', 'Le': 'Ge', 'Ge': 'Le'}[op]
                        n += 1
                        nm = b.debug_names.get(src, '_%d' % src)
                        ctx.check(op in ('Le', 'Gt'), '%s:%s:fits' % (b.path, nm), where(b, b.pstart[bj]), 'decoded length `%s` rejected iff it exceeds the bytes left (equality accepted)' % nm,
                                  'the bounds check of decoded length `%s` also rejects a length EQUAL to the bytes left: an entry whose last field ends exactly at the end of the buffer (empty payload, last record of a batch) - which is what the encoder writes - would be dropped as corrupt' % nm)
    if n < 2:
        ctx.missing('guards', 'expected the queue-name length check and the batch item length check, found %d' % n)


APPEND_RE = r'Vec::<u8>::(push|extend_from_slice|extend|append|insert|resize|extend_from_within)$|Extend<.*>>::extend|BufMut>::put'
CLEAR_RE = r'Vec::<u8>::clear$'
FRESH_RE = r'Vec::<u8>::(new|with_capacity)$|Default>::default$'


def buf_id(b, l, depth=0):
    """Identity of the Vec a `&mut Vec<u8>` local points to: ('param', i, path) | ('local', l, path) | None."""
    if l is None or depth > 12:
        return None
    ds = b.defs.get(l, [])
    if not ds:
        return ('param', l, ()) if 1 <= l <= b.arg_count else ('local', l, ())
    if len(ds) != 1:
        return ('local', l, ())
    (p, kind, data) = ds[0]
    if kind == 'assign' and not data['place']['p']:
        rv = data['rv']
        pl = rv['place'] if rv['k'] == 'ref' else (rv['op']['place'] if rv['k'] in ('use', 'cast') and rv['op']['k'] in ('copy', 'move') else None)
        if pl is not None:
            path = tuple(e.get('name') or str(e.get('i')) for e in pl['p'] if e['k'] == 'field')
            if not path and all(e['k'] == 'deref' for e in pl['p']):
                return buf_id(b, pl['l'], depth + 1)
            root = buf_id(b, pl['l'], depth + 1) if b.defs.get(pl['l']) and b.local_ty(pl['l']).startswith('&') else None
            if root is not None:
                return (root[0], root[1], root[2] + path)
            return (('param' if 1 <= pl['l'] <= b.arg_count and not b.defs.get(pl['l']) else 'local'), pl['l'], path)
    return ('local', l, ())


def _vec_args(b, cs):
    """indices of arguments of call cs that are `&mut Vec<u8>`"""
    out = []
    for i, a in enumerate(cs.args):
        l = op_local(a)
        if l is not None and b.local_ty(l).startswith('&mut std::vec::Vec<u8>'):
            out.append(i)
    return out


def encoder_fills(ctx, b, ident, memo, depth=0):
    """[(point, kind, callsite)] of the places where body b appends to buffer `ident` before having reset it:
    direct appends and calls into callees that fill without resetting.  kind in ('append', 'call')."""
    key = (b.id, ident)
    if key in memo:
        return memo[key]
    memo[key] = []      # recursion guard
    clears = [cs.point for cs in b.calls if re.search(CLEAR_RE, cs.name) and buf_id(b, cs.arg_local(0)) == ident]
    out = []
    for cs in b.calls:
        if re.search(CLEAR_RE, cs.name):
            continue
        hit = None
        if re.search(APPEND_RE, cs.name) and buf_id(b, cs.arg_local(0)) == ident:
            hit = 'append'
        elif cs.node is not None and depth < 6:
            cb = ctx.f.bodies[cs.node]
            for i in _vec_args(b, cs):
                if buf_id(b, op_local(cs.args[i])) == ident and i + 1 <= cb.arg_count:
                    if encoder_fills(ctx, cb, ('param', i + 1, ()), memo, depth + 1):
                        hit = 'call'
        if hit and not any(b.dominates(c, cs.point) for c in clears):
            out.append((cs.point, hit, cs))
    memo[key] = out
    return out


@rule('CD11', ['C01', 'C07', 'C13'], floor=2, template='reset-dominates-fill')
def cd11(ctx):
    """A reused scratch buffer is emptied before an entry is encoded into it: on every path from taking the
    long-lived buffer (a struct field, mem::take of one) to the first byte appended there is a clear()."""
    n = 0
    memo = {}
    for b in ctx.f.bodies.values():
        if b.generic_dup() or b.is_test or b.is_closure:
            continue
        for cs in b.calls:
            if cs.node is None:
                continue
            cb = ctx.f.bodies[cs.node]
            if not (cb.path.startswith('record::') or cb.path.startswith('<record::')):
                continue
            for i in _vec_args(b, cs):
                ident = buf_id(b, op_local(cs.args[i]))
                if ident is None or (ident[0] == 'param' and not ident[2] and b.local_ty(ident[1]).startswith('&mut std::vec::Vec<u8>')):
                    continue    # the caller's own output parameter: its callers carry the obligation
                # freshly created local vectors need no reset
                if ident[0] == 'local' and not ident[2]:
                    ds = b.defs.get(ident[1], [])
                    if ds and all(kind == 'call' and re.search(FRESH_RE, data.name) for (p_, kind, data) in ds):
                        continue
                n += 1
                fills = encoder_fills(ctx, cb, ('param', i + 1, ()), memo) if i + 1 <= cb.arg_count else []
                clears = [c.point for c in b.calls if re.search(CLEAR_RE, c.name) and buf_id(b, c.arg_local(0)) == ident]
                ok = not fills or any(b.dominates(c, cs.point) for c in clears)
                what = '.'.join(ident[2]) if ident[2] else b.debug_names.get(ident[1], '_%d' % ident[1])
                w = ''
                if fills:
                    w = ' (first unreset fill: %s)' % where(cb, fills[0][0])
                ctx.check(ok, '%s:%s->%s' % (b.path, what, cb.path.split('::')[-1]), where(b, cs.point), 'reused buffer `%s` is cleared before %s fills it' % (what, cb.path.split('::')[-1]),
                          'the reused buffer `%s` is handed to %s, which appends to it without anyone having cleared it%s: the bytes of the previous entry would be written again in front of the new one' % (what, cb.path, w))
    if n < 2:
        ctx.missing('buffers', 'expected the record writer scratch buffer and the batch spare buffer, found %d' % n)


def _cut_of(b, l, depth=0):
    """When the slice held in local l is one side of a cut of another slice: (side, base_local, k_ids) with side
    'prefix' | 'suffix', base_local the local the cut slice was read from (through re-borrows), k_ids the identity of
    the cut position (origins of the length operand). Follows moves and re-borrows. None otherwise."""
    from rules_bytes import ref_root
    if l is None or depth > 10:
        return None
    ds = b.defs.get(l, [])
    if len(ds) != 1:
        return None
    (p, kind, data) = ds[0]
    def k_ids(op):
        ol = op_local(op)
        if ol is None:
            return frozenset([('const', op_const_bits(op))])
        ids = set()
        for o in b.trace_local(ol):
            if o[0] == 'call':
                ids.add(('call', o[1].point))
            elif o[0] in ('rv', 'place', 'const'):
                ids.add((o[0], o[1]))
            elif o[0] == 'param':
                ids.add(('param', o[1]))
        return frozenset(ids)
    def base_of(al):
        r_ = ref_root(b, al) if al is not None else None
        if r_ is None:
            return None
        if r_[0] in ('local', 'param'):
            return r_[1]
        return None
    if kind == 'call':
        cs = data
        if re.search(r'Index<std::ops::RangeTo<usize>> for \[u8\]', cs.name) or re.search(r'Index<std::ops::RangeFrom<usize>> for \[u8\]', cs.name):
            side = 'prefix' if 'RangeTo<' in cs.name else 'suffix'
            rl = cs.arg_local(1)
            for o in (b.trace_local(rl) if rl is not None else []):
                if o[0] == 'rv' and o[2]['k'] == 'agg' and o[2].get('ops'):
                    base = base_of(cs.arg_local(0))
                    if base is not None:
                        return (side, base, k_ids(o[2]['ops'][0]))
            return None
        if method_name(cs.name) in VIEW_SAME and cs.args:
            return _cut_of(b, cs.arg_local(0), depth + 1)
        return None
    if kind == 'assign' and not data['place']['p']:
        rv = data['rv']
        pl = rv['place'] if rv['k'] == 'ref' else (rv['op']['place'] if rv['k'] in ('use', 'cast') and rv['op']['k'] in ('copy', 'move') else None)
        if pl is None:
            return None
        proj = [e for e in pl['p'] if e['k'] != 'deref']
        if not proj:
            return _cut_of(b, pl['l'], depth + 1)
        if len(proj) == 1 and proj[0]['k'] == 'field':
            src = b.single_def(pl['l'])
            if src and src[1] == 'call' and re.search(r'::split_at(_mut|_checked|_unchecked)?$', src[2].name) and len(src[2].args) > 1:
                base = base_of(src[2].arg_local(0))
                if base is not None:
                    return ('prefix' if proj[0]['i'] == 0 else 'suffix', base, k_ids(src[2].args[1]))
    return None


def _loop_cuts(b, L, w, inside):
    """Points inside loop L where the loop-carried remaining payload P is re-assigned to the SUFFIX of a cut of P whose
    PREFIX (same cut position) is the payload handed to the write call w: `let (chunk, rest) = p.split_at(k); p = rest;
    write(chunk)` in any spelling (two slicings, split_at, through helper locals)."""
    out = []
    pay = None
    for a in w.args:
        al = op_local(a)
        if al is not None and b.local_ty(al) == '&[u8]':
            pay = _cut_of(b, al)
    if pay is None or pay[0] != 'prefix':
        return out
    (_side, P, k) = pay
    for (p2, kind2, data2) in b.defs.get(P, []):
        if kind2 != 'assign' or p2 not in inside or data2['place']['p']:
            continue
        rv = data2['rv']
        src = None
        if rv['k'] in ('use', 'cast') and rv['op']['k'] in ('copy', 'move') and not rv['op']['place']['p']:
            src = _cut_of(b, rv['op']['place']['l'])
        elif rv['k'] in ('use', 'cast') and rv['op']['k'] in ('copy', 'move'):
            # P = (split).1 directly
            pl = rv['op']['place']
            proj = [e for e in pl['p'] if e['k'] != 'deref']
            sd = b.single_def(pl['l'])
            if len(proj) == 1 and proj[0]['k'] == 'field' and proj[0]['i'] == 1 and sd and sd[1] == 'call' and re.search(r'::split_at(_mut|_checked|_unchecked)?$', sd[2].name):
                from rules_bytes import ref_root
                r_ = ref_root(b, sd[2].arg_local(0)) if sd[2].arg_local(0) is not None else None
                if r_ is not None and r_[0] in ('local', 'param'):
                    ol = op_local(sd[2].args[1])
                    ids = set()
                    for o in (b.trace_local(ol) if ol is not None else []):
                        ids.add(('call', o[1].point) if o[0] == 'call' else (o[0], o[1]))
                    src = ('suffix', r_[1], frozenset(ids) if ol is not None else frozenset([('const', op_const_bits(sd[2].args[1]))]))
        elif rv['k'] == 'ref':
            pl = rv['place']
            if all(e['k'] == 'deref' for e in pl['p']):
                src = _cut_of(b, pl['l'])
        if src is not None and src[0] == 'suffix' and src[1] == P and (src[2] & k):
            out.append(p2)
    return out


FT = 'frame::header::FrameType'


def frame_protocol(ctx):
    """What the entry writer's frame loop hands to the frame writer, by abstract interpretation (absint.py): for the
    first and for later iterations, and for "nothing remains after this frame" true / false, the FrameType value that
    reaches write_frame and whether the loop is then left or goes round. Independent of how the state is kept (bool,
    two-variant enum, struct field, helper function): {'obs': {(first, last): {variants}}, 'after': {(first, last):
    {'exit' | 'next'}}, 'body': Body, 'site': CallSite, 'exhausted': bool} or None when there is no such loop."""
    if hasattr(ctx, '_frame_protocol'):
        return ctx._frame_protocol
    from absint import AbsInt, Path, UNK
    res = None
    for b in ctx.f.bodies.values():
        if b.generic_dup() or not b.path.startswith('recordlog::writer::RecordWriter'):
            continue
        loops = b.loops()
        wf = [cs for cs in b.calls if cs.node is not None and ctx.E.call_may(cs, 'WRITE') and any(cs.block in L['blocks'] for L in loops)]
        if not wf:
            continue
        w = wf[0]
        L = [L for L in loops if w.block in L['blocks']][0]
        ft_idx = None
        cal = ctx.f.bodies.get(w.node)
        for i in range(len(w.args)):
            if cal is not None and strip_crate(cal.local_ty(i + 1)) == FT:
                ft_idx = i
        if ft_idx is None:
            continue
        ai = AbsInt(ctx)
        obs, after = {}, {}
        def on_binop(body, rv, va, vb):
            # "nothing remains after this frame" spelt on the lengths BEFORE the cut: the frame takes
            # min(max_writable, len) bytes, so the rest is empty exactly when len <= max_writable
            if body is not b or rv['op'] not in ('Le', 'Ge', 'Lt', 'Gt'):
                return None
            for (x, y, ox, oy, flip) in ((va, vb, rv['a'], rv['b'], False), (vb, va, rv['b'], rv['a'], True)):
                if isinstance(x, tuple) and x and x[0] == 'len' and not (isinstance(y, tuple) and y and y[0] in ('i', 'len')):
                    lv = expr_leaves(b, oy)
                    if not any(l_[0] == 'call' and l_[1].path.endswith('max_writable_frame_length') for l_ in lv):
                        return None
                    op = {'Lt': 'Gt', 'Gt': 'Lt', 'Le': 'Ge', 'Ge': 'Le'}[rv['op']] if flip else rv['op']
                    if op == 'Le':
                        return ('cond', 'empty:%s' % (x[1],), True)
                    if op == 'Gt':
                        return ('cond', 'empty:%s' % (x[1],), False)
            return None
        ai.on_binop = on_binop
        def on_call(p, cs, args):
            nm = cs.name
            if re.search(r'<impl \[u8\]>::is_empty$', nm) or re.search(r'<impl \[u8\]>::len$', nm):
                from rules_bytes import ref_root
                r_ = ref_root(b, cs.arg_local(0)) if cs.arg_local(0) is not None else None
                key = 'it%d' % p.data.get('iter', 0)
                if nm.endswith('is_empty'):
                    return [(('cond', 'empty:%s' % key, True), None)]
                return [(('len', key), None)]
            if cs is w:
                it = p.data.get('iter', 0)
                last = p.conds.get('empty:it%d' % it)
                v = args[ft_idx] if ft_idx < len(args) else UNK
                var = v[2] if isinstance(v, tuple) and v and v[0] == 'adt' and strip_crate(v[1]) == FT else None
                obs.setdefault((it <= 1, last), set()).add(var)
                R = 'std::result::Result'
                return [(('adt', R, 'Ok', (UNK,)), {'data': {'pending': (it <= 1, last)}}), (('adt', R, 'Err', (UNK,)), {'data': {'write_failed': True}})]
            return None
        def on_block(p, bi):
            inside = bi in L['blocks']
            if bi == L['header']:
                pend = p.data.pop('pending', None)
                if pend is not None:
                    after.setdefault(pend, set()).add('next')
                p.data['iter'] = p.data.get('iter', 0) + 1
                if p.data['iter'] > 3:
                    return 'iter-limit'
            elif not inside and p.data.get('iter', 0) >= 1:
                pend = p.data.pop('pending', None)
                if pend is not None:
                    # leaving through the error edge of the write itself is not the loop's decision
                    after.setdefault(pend, set()).add('exit')
                return 'left-loop'
            return None
        ai.run(b, Path(b.points[b.entry][0], {}, {}, [], {}), on_call=on_call, on_block=on_block)
        res = {'obs': obs, 'after': after, 'body': b, 'site': w, 'exhausted': ai.exhausted}
        break
    ctx._frame_protocol = res
    return res


@rule('WR1', ['C07', 'C12'], floor=3, template='loop-progress')
def wr1(ctx):
    """The entry writer's frame loop makes progress: the remaining payload is re-sliced past the bytes just
    framed, the first-frame flag is cleared, and the loop ends exactly when nothing remains."""
    n = 0
    for b in ctx.f.bodies.values():
        if b.generic_dup() or not b.path.startswith('recordlog::writer::RecordWriter'):
            continue
        wf = [cs for cs in b.calls if cs.node is not None and ctx.E.call_may(cs, 'WRITE') and b.loops() and any(cs.block in L['blocks'] for L in b.loops())]
        if not wf:
            continue
        L = [L for L in b.loops() if wf[0].block in L['blocks']][0]
        hdr = b.pstart[L['header']]
        inside = set()
        for x in L['blocks']:
            for p in range(b.pstart[x], b.pterm[x] + 1):
                inside.add(p)
        outside = [p for p in range(len(b.points)) if p not in inside]
        w = wf[0]
        # (i) the slice handed to write_frame is a prefix [..k] of the remaining payload and the remaining payload is re-assigned to [k..]
        fl = flow_of(b)
        pay_local = None
        k_nodes = set()
        root = None
        for a in w.args:
            al = op_local(a)
            if al is not None and b.local_ty(al) == '&[u8]':
                from rules_bytes import ref_root
                root = ref_root(b, al)
        resliced = []
        if root and root[0] == 'call' and re.search(r'Index<std::ops::RangeTo<usize>> for \[u8\]', root[1].name):
            base = ref_root(b, op_local(root[1].args[0]))
            rl = op_local(root[1].args[1])
            for o in (b.trace_local(rl) if rl is not None else []):
                if o[0] == 'rv' and o[2]['k'] == 'agg':
                    k_nodes |= set(fl.op_nodes(o[2]['ops'][0]))
            # find assignments  payload = &payload[k..]
            for c in b.calls:
                if c.block in L['blocks'] and re.search(r'Index<std::ops::RangeFrom<usize>> for \[u8\]', c.name):
                    rl2 = op_local(c.args[1])
                    same_k = False
                    for o in (b.trace_local(rl2) if rl2 is not None else []):
                        if o[0] == 'rv' and o[2]['k'] == 'agg':
                            kb = fl.backward(set(fl.op_nodes(o[2]['ops'][0])), skip_mem=True)
                            kb2 = fl.backward(k_nodes, skip_mem=True)
                            same_k = bool((kb & kb2) - {('l', 1)})
                    # the result flows back into the local the prefix was taken from
                    t = fl.forward(set(fl.call_result_nodes(c)), skip_mem=True)
                    base_l = op_local(root[1].args[0])
                    tr = b.trace_local(base_l) if base_l is not None else []
                    loop_var = None
                    for o in tr:
                        if o[0] == 'rv' and o[2]['k'] == 'ref' and not [e for e in o[2]['place']['p'] if e['k'] != 'deref']:
                            loop_var = o[2]['place']['l']
                    if same_k and loop_var is not None and ('l', loop_var) in t:
                        resliced.append(c.point)
        if not resliced and root and root[0] == 'local':
            # `let (frame_payload, rest) = payload.split_at(k); payload = rest;`
            for (p_, kind, data) in b.defs.get(root[1], []):
                if kind == 'assign' and data['rv']['k'] == 'use' and data['rv']['op']['k'] in ('copy', 'move'):
                    pl = data['rv']['op']['place']
                    f0 = [e for e in pl['p'] if e['k'] == 'field']
                    src = b.single_def(pl['l'])
                    if f0 and f0[0]['i'] == 0 and src and src[1] == 'call' and re.search(r'::split_at(_mut)?$', src[2].name):
                        sp = src[2]
                        base_l = op_local(sp.args[0])
                        loop_var = None
                        for o in (b.trace_local(base_l) if base_l is not None else []):
                            if o[0] == 'rv' and o[2]['k'] == 'ref' and not [e for e in o[2]['place']['p'] if e['k'] != 'deref']:
                                loop_var = o[2]['place']['l']
                        # some assignment loop_var = (split result).1 inside the loop
                        def is_field_of(l, base, idx):
                            r_ = ref_root(b, l)
                            if not r_ or r_[0] != 'local':
                                return False
                            d_ = b.single_def(r_[1])
                            if d_ and d_[1] == 'assign' and d_[2]['rv']['k'] == 'use' and d_[2]['rv']['op']['k'] in ('copy', 'move'):
                                q = d_[2]['rv']['op']['place']
                                return q['l'] == base and [e['i'] for e in q['p'] if e['k'] == 'field'][:1] == [idx]
                            return False
                        for (p2, kind2, data2) in b.defs.get(loop_var, []) if loop_var is not None else []:
                            if kind2 == 'assign' and p2 in inside and data2['rv']['k'] == 'use':
                                o2 = data2['rv']['op']
                                if o2['k'] in ('copy', 'move'):
                                    if (o2['place']['l'] == pl['l'] and [e['i'] for e in o2['place']['p'] if e['k'] == 'field'][:1] == [1]) or \
                                            (not o2['place']['p'] and is_field_of(o2['place']['l'], pl['l'], 1)):
                                        resliced.append(p2)
        if not resliced:
            resliced = _loop_cuts(b, L, w, inside)
        n += 1
        ok_i = bool(resliced) and hdr not in b.reach_after(hdr, avoid=set(resliced) | set(outside))
        ctx.check(ok_i, '%s:payload-advances' % b.path, where(b, w.point), 'every round re-slices the remaining payload past the frame just written',
                  'the frame loop can go round without shrinking the remaining payload (same bytes framed again / endless entry)')
        # (ii) first-frame flag cleared on every round
        ft = [c for c in b.calls if c.block in L['blocks'] and c.node is not None and ctx.f.bodies[c.node].ret_ty == 'frame::header::FrameType' and ctx.f.bodies[c.node].arg_count == 2]
        ok_ii = False
        if ft:
            fl_local = None
            for o in b.trace_local(op_local(ft[0].args[0])) if op_local(ft[0].args[0]) is not None else []:
                pass
            a0 = op_local(ft[0].args[0])
            src = b.single_def(a0)
            first_var = op_local(src[2]['rv']['op']) if src and src[1] == 'assign' and src[2]['rv']['k'] == 'use' else a0
            clears = [p for (p, kind, data) in b.defs.get(first_var, []) if kind == 'assign' and data['rv']['k'] == 'use' and op_const_bits(data['rv']['op']) == 0 and p in inside]
            ok_ii = bool(clears) and hdr not in b.reach_after(hdr, avoid=set(clears) | set(outside))
        # the same question asked of the VALUES (abstract interpretation of the loop, independent of how the flag is kept:
        # bool, two-variant enum, struct field): frames of later rounds are typed Middle / Last
        prot = frame_protocol(ctx)
        decided = prot is not None and prot['body'] is b and not prot['exhausted'] and \
            all(len(prot['obs'].get(k_, ())) == 1 and None not in prot['obs'][k_] for k_ in ((True, True), (True, False), (False, True), (False, False)))
        if decided:
            ok_ii = prot['obs'][(False, False)] | prot['obs'][(False, True)] <= {'Middle', 'Last'}
        n += 1
        ctx.check(ok_ii, '%s:first-flag-cleared' % b.path, where(b, w.point), 'the is-first flag is set to false on every path round the loop',
                  'the first-frame flag is not cleared on every round: later frames of an entry would be typed First/Full and start a new entry at the reader')
        # (iii) loop exit on the `nothing remains` edge, and is_last passed to frame_type is that same test
        from vocab import emptiness_tests
        empties = [(te, fe, cs) for (te, fe, cs) in emptiness_tests(b, r'<impl \[u8\]>') if cs.block in L['blocks']]
        ok_iii = False
        for (te, fe, cs) in empties:
            te_out = b.points[te[1]][0] not in L['blocks'] or hdr not in b.reach([te[1]], avoid=outside)
            fe_in = hdr in b.reach([fe[1]], avoid=outside)
            if te_out and fe_in:
                ok_iii = True
        if decided:
            af = prot['after']
            ok_iii = all(af.get((f_, True)) == {'exit'} and af.get((f_, False)) == {'next'} for f_ in (True, False))
        n += 1
        ctx.check(ok_iii, '%s:ends-when-empty' % b.path, where(b, w.point), 'the loop is left exactly on the edge where no payload remains',
                  'the frame loop does not end exactly when the remaining payload is empty (inverted / missing test): entries would be cut short or never end')
    if n == 0:
        ctx.missing('frame-loop', 'no frame loop found in the record writer')


@rule('TAINT3', ['C10', 'C08'], floor=2, template='guard-dominates-use')
def taint3(ctx):
    """Fixed-size headers are only cut out of a WAL buffer that is known to be long enough."""
    n = 0
    for b in ctx.f.bodies.values():
        if b.generic_dup() or b.is_test or not (b.path.startswith('record::') or b.path.startswith('<record::')):
            continue
        if not int_codec_calls(b, 'from'):
            continue
        fl = flow_of(b)
        comps = [c for c in const_comparisons(ctx, b, 'HEADER_LEN')]
        # sinks: split_at(HEADER_LEN) and index(Range*{.. HEADER_LEN ..})
        sinks = []
        for cs in b.calls:
            if re.search(r'::split_at(_mut)?$', cs.name) and len(cs.args) > 1 and (op_const_named(cs.args[1]) or '').endswith('HEADER_LEN'):
                sinks.append(cs)
            elif re.search(INDEX_RE, cs.name) and len(cs.args) > 1:
                rl = op_local(cs.args[1])
                for o in (b.trace_local(rl) if rl is not None else []):
                    if o[0] == 'rv' and o[2]['k'] == 'agg' and any((op_const_named(x) or '').endswith('HEADER_LEN') or op_const_bits(x) is not None for x in o[2]['ops']):
                        if cs not in sinks:
                            sinks.append(cs)
        seen = 0
        for s_ in sinks:
            n += 1
            seen += 1
            ok = False
            for c in comps:
                # the compared quantity is the length of the buffer being cut
                lv = expr_leaves(b, c['x'])
                if not any(x[0] == 'call' and x[1].name.endswith('::len') for x in lv):
                    continue
                for (bj, te, fe) in switch_on_result(b, c):
                    enough = fe if c['op'] == 'Lt' else te if c['op'] == 'Ge' else None
                    short = te if c['op'] == 'Lt' else fe if c['op'] == 'Ge' else None
                    if enough is not None and b.edge_dominates(enough, s_.point) and s_.point not in b.reach([short[1]]):
                        ok = True
            ctx.check(ok, '%s:%s#%d' % (b.path, method_name(s_.name), seen), where(b, s_.point), 'fixed-size cut dominated by `len >= HEADER_LEN`',
                      'a fixed-size header is cut out of a buffer that may be shorter than HEADER_LEN (inverted or missing length test): a truncated entry makes open panic')
    if n < 2:
        ctx.missing('sinks', 'expected fixed-size header cuts in the entry decoder and the batch iterator')


@rule('ISO5', ['C18', 'C01'], floor=1, template='must-flow')
def iso5(ctx):
    """The queue an entry belongs to is written to the WAL as the caller gave it: the string whose bytes the entry
    encoder appends is a parameter or a field read as it is -- not the result of a call that cuts, clamps or rebuilds it
    (two live queues whose names differ only in the part that was cut would replay into one another)."""
    n = 0
    VIEWS = ('as_bytes', 'deref', 'as_ref', 'as_str', 'borrow', 'as_slice')
    for b in ctx.f.bodies.values():
        if b.generic_dup() or b.is_test or b.is_closure:
            continue
        if not (b.path.startswith('record::') or b.path.startswith('<record::')) or not int_codec_calls(b, 'to'):
            continue
        k = 0
        for cs in b.calls:
            al = cs.arg_local(0)
            if not (al is not None and b.local_ty(al).startswith('&mut std::vec::Vec<u8>') and re.search(r'Vec::<u8>::(extend_from_slice|extend|append)$|Extend<.*>>::extend', cs.name)):
                continue
            for a in cs.args[1:]:
                # the appended bytes come from `<str>.as_bytes()`
                srcs = []
                seen0, work0 = set(), [op_local(a)]
                while work0:
                    l0 = work0.pop()
                    if l0 is None or l0 in seen0:
                        continue
                    seen0.add(l0)
                    for o in b.trace_local(l0):
                        if o[0] == 'call' and method_name(o[1].name) == 'as_bytes' and 'str' in o[1].name:
                            srcs.append(o[1])
                        elif o[0] == 'call' and method_name(o[1].name) in VIEWS:
                            work0.append(o[1].arg_local(0))
                        elif o[0] == 'rv' and o[2]['k'] == 'ref' and all(e['k'] == 'deref' for e in o[2]['place']['p']):
                            work0.append(o[2]['place']['l'])
                for ab in srcs:
                    n += 1
                    k += 1
                    bad = []
                    seen = set()
                    work = [ab.arg_local(0)]
                    while work:
                        l = work.pop()
                        if l is None or l in seen:
                            continue
                        seen.add(l)
                        for o in b.trace_local(l):
                            if o[0] == 'call':
                                if method_name(o[1].name) in VIEWS:
                                    work.append(o[1].arg_local(0))
                                else:
                                    bad.append(o[1].name[-60:])
                            elif o[0] == 'rv' and o[2]['k'] == 'ref':
                                if all(e['k'] == 'deref' for e in o[2]['place']['p']):
                                    work.append(o[2]['place']['l'])
                    ctx.check(not bad, '%s:name-bytes#%d' % (b.path, k), where(b, ab.point), 'the string appended to the entry is a parameter / field, untouched',
                              'the queue name written to the WAL is not the name the caller gave but the result of %s: entries of one queue can be replayed into another queue' % sorted(set(bad)))
    if n == 0:
        ctx.missing('name-input', 'no entry encoder appending the bytes of a string found')
