#!/usr/bin/env python3
"""Injects the table of seeded changes (from /verif/seeded/*/meta.json) into DESIGN.md."""
import glob, json, os
HERE = os.path.dirname(os.path.abspath(__file__))
VERIF = os.path.dirname(HERE)
rows = []
for p in sorted(glob.glob(os.path.join(VERIF, 'seeded', '*', 'meta.json'))):
    m = json.load(open(p))
    rows.append('| %s | %s | %s | %s | %s | %s |' % (m['id'], m['property'], m['site'], m['what'], m['needs'], m['caught_by']))
table = ['| seed | property | site | change | needs to manifest | caught by (rules → properties failing) |', '|---|---|---|---|---|---|'] + rows
p = os.path.join(VERIF, 'DESIGN.md')
s = open(p).read()
a, b = s.index('<!-- SEEDED-TABLE-BEGIN -->'), s.index('<!-- SEEDED-TABLE-END -->')
s = s[:a] + '<!-- SEEDED-TABLE-BEGIN -->\n' + '\n'.join(table) + '\n' + s[b:]
open(p, 'w').write(s)
print(len(rows), 'rows')
