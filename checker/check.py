#!/usr/bin/env python3
"""Entry point of every registered check:  check.py <property-id> [--thorough] [--explain <report.json>]

quick   : extract facts from /repo's current working tree (production cfg), run the property's
          rules + controls, write evidence, print VIOLATION / KNOWN-FINDING lines.
thorough: quick + the same rules on the cfg(test) configuration + workspace members
          (mrecordlog_cli) for the whole-workspace inventories + checker self-validation corpus.
Nothing from /repo is executed; the verdict depends only on /repo's type-checked program."""
import glob
import importlib
import json
import os
import random
import shutil
import subprocess
import sys
import time

HERE = os.path.dirname(os.path.abspath(__file__))
VERIF = os.path.dirname(HERE)
sys.path.insert(0, HERE)

from core import Facts  # noqa: E402
from engine import Ctx, run_rules, RULES, PROP_RULES  # noqa: E402

for m in sorted(glob.glob(os.path.join(HERE, 'rules_*.py'))):
    importlib.import_module(os.path.basename(m)[:-3])

import props  # noqa: E402

REPO = os.environ.get('MRL_REPO', '/repo')


def extract(work, mode, nonce):
    out = os.path.join(work, 'facts.' + mode)
    env = dict(os.environ)
    p = subprocess.run([os.path.join(VERIF, 'driver', 'run.sh'), REPO, out, nonce, mode], capture_output=True, text=True, env=env)
    return p, out


def load_known():
    p = os.path.join(VERIF, 'known_findings.json')
    if not os.path.exists(p):
        return []
    return json.load(open(p)).get('findings', [])


def safe_name(k):
    return ''.join(c if c.isalnum() or c in '._-' else '_' for c in k)[:180]


def main():
    t0 = time.time()
    args = sys.argv[1:]
    if not args:
        print('usage: check <property-id> [--thorough] [--explain report.json]')
        return 2
    pid = args[0]
    thorough = '--thorough' in args or os.environ.get('VERIF_TIER') == 'thorough'
    if '--explain' in args:
        path = args[args.index('--explain') + 1]
        rep = json.load(open(path))
        print(json.dumps(rep, indent=1))
        print('\nre-running rule %s on the current tree ...' % rep.get('rule'))
        os.environ['MRL_ONLY_RULE'] = rep.get('rule', '')
    seed = int(os.environ.get('VERIF_SEED', '0') or 0)
    if pid not in props.PROPS:
        print('unknown or not-applicable property %s' % pid)
        return 2
    rule_ids = list(PROP_RULES.get(pid, []))
    only = os.environ.get('MRL_ONLY_RULE')
    if only:
        rule_ids = [r for r in rule_ids if r == only]
    work = os.path.join(VERIF, '.work', 'run.%d.%d' % (os.getpid(), random.randrange(1 << 30)))
    os.makedirs(work, exist_ok=True)
    nonce = '%032x' % random.getrandbits(128)
    try:
        p, out = extract(work, 'lib', nonce)
        facts_path = os.path.join(out, 'mrecordlog.facts.json')
        if p.returncode != 0 or not os.path.exists(facts_path):
            print('ERROR: fact extraction failed (does /repo compile?)\n' + (p.stdout + p.stderr)[-3000:])
            return 2
        facts = Facts(facts_path)
        if facts.nonce != nonce:
            print('ERROR: stale fact file (nonce mismatch): cargo skipped the driver')
            return 2
        configs = [('production', facts)]
        extra_info = {}
        if thorough:
            p2, out2 = extract(work, 'test', nonce)
            tp = os.path.join(out2, 'mrecordlog.test.facts.json')
            if p2.returncode == 0 and os.path.exists(tp):
                tf = Facts(tp)
                if tf.nonce == nonce:
                    configs.append(('cfg(test)', tf))
            else:
                extra_info['cfg_test_extraction'] = 'failed: ' + (p2.stdout + p2.stderr)[-500:]
        all_results = []
        per_config = {}
        for (cname, f) in configs:
            ctx = Ctx(f)
            ctx.config = cname
            out_rules = run_rules(ctx, rule_ids)
            rs = [r for rid in rule_ids for r in out_rules[rid]]
            per_config[cname] = {'functions_analysed': len(f.bodies), 'poly_bodies': len(f.poly),
                                 'call_edges': sum(len(b.calls) for b in f.bodies.values()),
                                 'loops_classified': sum(len(b.loops()) for b in f.bodies.values() if not b.generic_dup()),
                                 'rule_instances': len(rs),
                                 'helpers_inlined_into_callers': f.inline_report.get('inlined', []),
                                 'helper_bodies_dropped_after_inlining': f.inline_report.get('dropped', []),
                                 'normalisations': {k: f.inline_report.get(k) for k in ('consts_expanded', 'consts_aliased', 'adaptors_desugared', 'types_renamed', 'unwrapped', 'renamed', 'fields_renamed', 'webs_split', 'reads_forwarded', 'sroa', 'tails_split', 'notes')}}
            for r in rs:
                all_results.append((cname, r))
        # controls: positive fixtures
        ctl = props.run_controls(work, nonce, rule_ids)
        # selftest corpus (thorough)
        selftest = None
        sweep = None
        if thorough:
            selftest = props.run_selftest(pid, work)
            if os.environ.get('MRL_NO_SWEEP') != '1':
                sweep = props.run_sweep(pid, work)

        known = [k for k in load_known() if k.get('property') == pid]
        open_keys = {k['key']: k for k in known if k.get('status') == 'open'}
        violations = []
        known_hits = []
        seen = set()
        for (cname, r) in all_results:
            if r.status == 'ok':
                continue
            fk = r.fullkey()
            if fk in seen:
                continue
            seen.add(fk)
            if r.status == 'violation' and fk in open_keys:
                known_hits.append((fk, open_keys[fk]))
                continue
            violations.append((cname, r))
        for c in ctl['failed']:
            violations.append(('controls', c))
        rep_dir = os.path.join(VERIF, 'reports', pid)
        if os.path.isdir(rep_dir):
            shutil.rmtree(rep_dir, ignore_errors=True)
        for (fk, k) in known_hits:
            print('KNOWN-FINDING: property=%s %s %s' % (pid, fk, k.get('what', '')))
        for (cname, r) in violations:
            os.makedirs(rep_dir, exist_ok=True)
            rp = os.path.join(rep_dir, safe_name(r.fullkey()) + '.json')
            json.dump({'property': pid, 'rule': r.rule, 'key': r.key, 'status': r.status, 'config': cname, 'where': r.where, 'msg': r.msg,
                       'rule_doc': RULES.get(r.rule, {}).get('doc', ''), 'template': RULES.get(r.rule, {}).get('template', ''), 'detail': r.detail}, open(rp, 'w'), indent=1)
            print('%s [%s] %s %s @ %s: %s' % ('FAIL', cname, r.rule, r.key, r.where, r.msg))
            print('VIOLATION property=%s replay=%s' % (pid, rp))
        if sweep is not None and sweep.get('checker_regressions_vs_baseline'):
            print('NOTE: checker sensitivity regression (mutants reported at baseline, silent now): %s' % sweep['checker_regressions_vs_baseline'][:5])
        if selftest is not None and selftest.get('bad'):
            # a corpus regression means the *checker* lost power; it is reported, never a verdict on /repo
            print('NOTE: checker self-validation: %s' % selftest['bad'])

        # ---- evidence
        inst = [(c, r) for (c, r) in all_results if r.status in ('ok', 'violation')]
        distinct_nontrivial = len({(r.rule, r.key) for (c, r) in inst if r.nontrivial})
        samples = []
        for (c, r) in inst:
            if c == 'production' and len(samples) < 40:
                samples.append({'rule': r.rule, 'instance': r.key, 'site': r.where, 'verdict': r.status, 'what': r.msg[:240]})
        spec = props.PROPS[pid]
        ev = {
            'property_id': pid,
            'tier': 'thorough' if thorough else 'quick',
            'seed': seed,
            'level': 'other',
            'wall_s': round(time.time() - t0, 2),
            'violations': len(violations),
            'assumptions': spec['assumptions'],
            'coverage': {
                'explanation': spec['explanation'],
                'rule': 'cases = rule instances discovered in the MIR of /repo\'s current tree (one per (rule, function, callee/field) site); '
                        'an instance is non-trivial when its verdict required a dominance / reachability / data-flow query rather than mere presence of an item; '
                        'distinct = distinct (rule, site key) pairs',
                'evaluations': len(inst),
                'distinct_nontrivial': distinct_nontrivial,
                'obligations': len(inst),
                'discharged': sum(1 for (c, r) in inst if r.status == 'ok'),
                'samples': samples,
                'rules': {rid: {'template': RULES[rid]['template'], 'floor': RULES[rid]['floor'], 'doc': RULES[rid]['doc'][:200],
                                'instances': sum(1 for (c, r) in inst if r.rule == rid and c == 'production')} for rid in rule_ids},
                'configurations': per_config,
                'controls': ctl['summary'],
                'known_findings_matched': [fk for (fk, k) in known_hits],
                'checker_cmd': './check %s%s' % (pid, ' --thorough' if thorough else ''),
                'trusted_base': ['rustc nightly front end + MIR construction (mir-opt-level=0)', 'the fact extractor /verif/driver',
                                 'python rule engine /verif/checker', 'std / bytes / crc32fast / tracing treated as opaque leaves with the documented effect table'],
                'exhaustive': False,
            },
        }
        if selftest is not None:
            ev['coverage']['self_validation'] = selftest
        if sweep is not None:
            ev['coverage']['mutation_sweep'] = sweep
        ev['coverage'].update(extra_info)
        os.makedirs(os.path.join(VERIF, 'evidence'), exist_ok=True)
        if '--explain' not in args:   # a replay of one rule instance must not replace the evidence of the full check
            json.dump(ev, open(os.path.join(VERIF, 'evidence', pid + '.json'), 'w'), indent=1)
        nviol = len(violations)
        print('%s: %s — %d rule instances over %d rules (%d path/flow queries), %d violation(s), %d known finding(s), %.1fs' % (
            pid, 'HOLDS on everything analysed' if nviol == 0 else 'VIOLATED', len(inst), len(rule_ids), distinct_nontrivial, nviol, len(known_hits), time.time() - t0))
        return 1 if nviol else 0
    finally:
        shutil.rmtree(work, ignore_errors=True)


if __name__ == '__main__':
    sys.exit(main())
