"""Group GC (§5.2): when WAL files may be unlinked."""
import re

from core import op_local, op_const_bits, place_fields, strip_crate, rvalue_operands, mem_loc
from engine import rule
from flow import flow_of
from vocab import (api_mut, open_bodies, log_sites, log_site_kinds, kinds_written, agg_field_op,
                   callers_of, lifted_dominated, where, root_bodies, reachable_bodies, MPR)

FN = 'rolling::file_number::FileNumber'


def s_site(ctx):
    """site predicate: call that must FLUSH and must FSYNC (A-CONST aware)."""
    def pred(b, cs):
        return ctx.E.call_must(b, cs, 'FLUSH') and ctx.E.call_must(b, cs, 'FSYNC')
    return pred


def unlink_prim_sites(ctx):
    """[(body, CallSite)] of resolved UNLINK primitives in bodies reachable from the roots."""
    out = []
    for b in ctx.f.bodies.values():
        for (p, e, cs) in ctx.E.direct_sites(b):
            if e == 'UNLINK':
                out.append((b, cs))
    return out


def gc_frames(ctx):
    """Call sites U (body, cs) with may(callee, UNLINK), in the body closest to the roots that
    still is not a root-only wrapper: i.e. every call site with may UNLINK."""
    out = []
    for b in ctx.f.bodies.values():
        for cs in b.calls:
            if cs.node is not None and ctx.E.call_may(cs, 'UNLINK'):
                out.append((b, cs))
    return out


def in_loop(b, point):
    blk = b.point_block(point)
    return [L for L in b.loops() if blk in L['blocks']]


def yields_only_empty(ctx, y):
    """ISO4 on a yielder body: every closure it creates that builds Some(..) does so only under
    the true edge of MemQueue::is_empty. Returns (ok, n_closures_checked)."""
    n = 0
    ok_all = True
    for (_p, fj) in y.fn_values:
        node = fj.get('node')
        if node is None or node not in ctx.f.bodies:
            continue
        c = ctx.f.bodies[node]
        somes = [e for e in c.exits() if e['kind'] == 'some']
        if not somes:
            continue
        n += 1
        guards = list(c.switches_on_call(lambda cs: cs.path.endswith('MemQueue::is_empty')))
        for e in somes:
            if not any(c.edge_dominates(te, e['point']) for (_bi, _c, te, _fe, _cs) in guards):
                ok_all = False
        # ... and EVERY empty queue is yielded: from the `is_empty() == true` edge no None exit is reachable (a cache
        # of "already recorded" positions would let the only record of an idle queue die with its file)
        for (_bi, _c, te, _fe, _cs) in guards:
            r_ = c.reach([te[1]])
            if any(e['kind'] == 'none' and e['point'] in r_ for e in c.exits()):
                ok_all = False
        # ... and a queue is left out ONLY because it is not empty: every None is answered under the false edge of
        # is_empty (`if counter > 0 && q.is_empty()` leaves empty queues out whenever the counter is wrong)
        for e in c.exits():
            if e['kind'] == 'none' and not any(c.edge_dominates(fe, e['point']) for (_bi, _c, _te, fe, _cs) in guards):
                ok_all = False
    # `.filter(|(_, q)| q.is_empty())` spelling: the iterator handed out is (derived from) a filter whose
    # predicate is exactly MemQueue::is_empty of the item
    fl = None
    for cs in y.calls:
        if not re.search(r'Iterator>::filter(::<.*>)?$', cs.name):
            continue
        pred_ok = False
        for (p_, fj) in y.fn_values:
            if not (y.pstart[cs.block] <= p_ <= cs.point):
                continue
            node = fj.get('node')
            c = ctx.f.bodies.get(node) if node is not None else None
            if c is None or c.ret_ty != 'bool':
                continue
            ex = c.exits()
            if ex and all(e['kind'] == 'forward' and e.get('call') is not None and e['call'].path.endswith('MemQueue::is_empty') for e in ex):
                pred_ok = True
        if fl is None:
            fl = flow_of(y)
        returned = ('l', 0) in fl.forward(set(fl.call_result_nodes(cs)))
        if returned:
            n += 1
            if not pred_ok:
                ok_all = False
    return ok_all and n > 0, n


def position_pass_facts(ctx, b):
    """If b is a position pass, return list of facts per RecordPosition log site in a loop."""
    out = []
    kw = kinds_written(ctx, b)
    for (cs, p, rv) in kw.get('RecordPosition', []):
        loops = in_loop(b, cs.point)
        if not loops:
            continue
        fl = flow_of(b)
        # iterator next() calls inside the loop
        nexts = [c for c in b.calls if c.name.endswith('as std::iter::Iterator>::next') and any(c.block in L['blocks'] for L in loops)]
        qop = agg_field_op(rv, 'queue')
        pop = agg_field_op(rv, 'position')
        item_ok = False
        pos_ok = False
        yielders = []
        for n in nexts:
            t = fl.forward(fl.call_result_nodes(n))
            if qop is not None and fl.op_tainted(qop, t):
                item_ok = True
            # position flows from next_position/start_position of the yielded item
            for c in b.calls:
                if re.search(r'MemQueue::(next_position|start_position)$', c.path) and c.args and fl.op_tainted(c.args[0], t):
                    t2 = fl.forward(fl.call_result_nodes(c))
                    if pop is not None and fl.op_tainted(pop, t2):
                        pos_ok = True
            # where does the iterator come from
            back = fl.backward(set(fl.op_nodes(n.args[0])))
            for c in b.calls:
                if c.node is not None and any(x in back for x in fl.call_result_nodes(c)):
                    y = ctx.f.bodies[c.node]
                    ok, cnt = yields_only_empty(ctx, y)
                    if cnt:
                        yielders.append((y, ok))
        # every yielded queue is logged: from the Some edge of next() the loop cannot come round again without
        # passing the log site; and the pass always runs: no successful exit of the body avoids the loop
        every_ok = True
        from core import result_edges
        for n in nexts:
            if n.dest_local() is None:
                continue
            re_ = result_edges(b, n.dest_local())
            for oe in re_['ok']:
                if n.point in b.reach([oe[1]], avoid=[cs.point]):
                    every_ok = False
        always_ok = True
        if nexts:
            ok_pts = [e['point'] for e in b.exits() if e['kind'] in ('ok',)]
            r0 = b.reach([b.entry], avoid=[n.point for n in nexts])
            if any(p_ in r0 for p_ in ok_pts):
                always_ok = False
        # ... and the pass is COMPLETE: it is left successfully only when the iterator is exhausted (a `break` on some
        # condition of its own -- the writer rolled over, a budget -- leaves the queues not yet visited unrecorded while
        # the caller goes on to unlink)
        complete_ok = True
        none_edges = []
        for n in nexts:
            if n.dest_local() is not None:
                none_edges.extend(result_edges(b, n.dest_local())['err'])
        if nexts and none_edges:
            ok_pts = [e['point'] for e in b.exits() if e['kind'] in ('ok',)] or b.return_points()
            r1 = b.reach([n.point for n in nexts], avoid_edges=none_edges)
            if any(p_ in r1 for p_ in ok_pts):
                complete_ok = False
        out.append({'cs': cs, 'item_ok': item_ok, 'pos_ok': pos_ok, 'yielders': yielders, 'nexts': nexts, 'loops': loops, 'every_ok': every_ok, 'always_ok': always_ok, 'complete_ok': complete_ok})
    return out


def pass_sites(ctx, b):
    """Where body b runs a position pass: a call to a body that contains one, or the pass written in place
    (then the site is the iterator's next() call, which dominates the loop and everything after it).
    [dict(point, cs (CallSite|None), body (where the log sites are), facts, inline)]"""
    out = []
    for w in b.calls:
        if w.node is not None:
            wb = ctx.f.bodies[w.node]
            facts = position_pass_facts(ctx, wb)
            if facts:
                out.append({'point': w.point, 'cs': w, 'body': wb, 'facts': facts, 'inline': False})
    for f in position_pass_facts(ctx, b):
        for n in f['nexts']:
            out.append({'point': n.point, 'cs': n, 'body': b, 'facts': [f], 'inline': True})
    return out


def inline_pass_markers(ctx):
    def markers(bb):
        return [ps['point'] for ps in pass_sites(ctx, bb) if ps['inline'] and all(f['item_ok'] and f['pos_ok'] and f['yielders'] and all(ok for (_y, ok) in f['yielders']) for f in ps['facts'])]
    return markers


def is_position_pass(ctx, b):
    facts = position_pass_facts(ctx, b)
    return any(f['item_ok'] and f['pos_ok'] and f['yielders'] and all(ok for (_y, ok) in f['yielders']) for f in facts)


@rule('GC1', ['C01', 'C02', 'C03', 'C04', 'C18'], floor=1, template='must-pass-through')
def gc1(ctx):
    """Every unlink is dominated (on every call chain) by a position pass over the empty queues."""
    sites = unlink_prim_sites(ctx)
    if not sites:
        ctx.missing('unlink', 'no UNLINK primitive reachable from the API')
    pp = {b.id for b in ctx.f.bodies.values() if is_position_pass(ctx, b)}
    if not pp:
        ctx.missing('position-pass', 'no body qualifies as position pass (RecordPosition log site in a loop over empty queues)')
    for (b, cs) in sites:
        # a pass that dominates from inside a callee of the same chain does not count for its own unlink:
        # only callee passes that are not on the chain, or a pass written in place before the call
        ok, wit = lifted_dominated(ctx, b, cs.point, lambda bb, c: c.node in pp and not ctx.E.call_may(c, 'UNLINK'), markers=inline_pass_markers(ctx))
        chain = ' <- '.join(x.path for (x, _c) in wit)
        ctx.check(ok, '%s:%s' % (b.path, cs.path), where(b, cs.point),
                  'unlink dominated by the position pass (%s)' % chain,
                  'file removal reachable without first recording the positions of the empty queues (chain: %s)' % chain)
    # the pass itself records the right thing
    for b in ctx.f.bodies.values():
        for f in position_pass_facts(ctx, b):
            k = '%s:pass' % b.path
            ctx.check(f['item_ok'], k + ':queue', where(b, f['cs'].point), 'RecordPosition.queue flows from the yielded queue key',
                      'RecordPosition.queue does not flow from the item yielded by the empty-queue iterator')
            ctx.check(f['pos_ok'], k + ':position', where(b, f['cs'].point), 'RecordPosition.position flows from next_position()/start_position() of the yielded queue',
                      'RecordPosition.position does not flow from MemQueue::next_position/start_position of the yielded queue')
            ctx.check(f['every_ok'], k + ':every-item-logged', where(b, f['cs'].point), 'every queue handed out by the iterator gets its position entry',
                      'the position pass can skip a queue it was handed (a `continue` before the log site, e.g. an "already recorded" cache): the only record of an idle empty queue would die with its file')
            # ... and the pass only READS the queues: neither the iterator that feeds it (its closures included) nor the loop
            # calls a `&mut self` method of MemQueue or stores into one -- a queue "tidied up" on the way (buffers released
            # through `*self = MemQueue::default()`) loses its start position before the position is even logged
            touched = []
            hosts = [b] + [y for (y, _ok) in f['yielders']]
            for y in list(hosts):
                for (_p, fj) in y.fn_values:
                    if fj.get('node') in ctx.f.bodies:
                        hosts.append(ctx.f.bodies[fj['node']])
            for h in hosts:
                for c in h.calls:
                    if c.node in ctx.f.bodies and ctx.f.bodies[c.node].path.startswith('mem::queue::MemQueue::') and ctx.f.bodies[c.node].arg_count >= 1 \
                            and ctx.f.bodies[c.node].local_ty(1).startswith('&mut '):
                        touched.append('%s calls %s' % (h.path.split('::')[-1], c.path.split('::')[-1]))
                for (p_, pl_, rv_) in h.stores:
                    if (mem_loc(pl_) or '').startswith('MemQueue.'):
                        touched.append('%s stores into %s' % (h.path.split('::')[-1], mem_loc(pl_)))
                    elif pl_['p'] and all(e_['k'] == 'deref' for e_ in pl_['p']) and 'mem::queue::MemQueue' in h.local_ty(pl_['l']) and h.local_ty(pl_['l']).startswith('&mut '):
                        touched.append('%s overwrites a whole MemQueue' % h.path.split('::')[-1])
            ctx.check(not touched, k + ':reads-only', where(b, f['cs'].point), 'the position pass and the iterator feeding it do not modify the queues',
                      'the position pass (or the iterator that feeds it) modifies the queues it walks (%s): the position logged, and the live queue, are no longer what the calls before left' % '; '.join(sorted(set(touched))))
            ctx.check(f['complete_ok'], k + ':runs-to-the-end', where(b, f['cs'].point), 'the loop over the empty queues is left successfully only when the iterator is exhausted',
                      'the position pass can stop before the iterator is exhausted and still return successfully (a break / early Ok on a condition of its own): the queues not yet visited keep their only position record in files the caller goes on to unlink')
            if True:
                is_api = any(r['node'] == b.id for r in ctx.f.roots)
                # only for a body that IS the pass (called before the unlink); a pass written in place in the body that
                # also unlinks is covered by the dominance of the unlink by the loop
                if not is_api and b.ret_ty.startswith('std::result::Result<') and 'UNLINK' not in ctx.E.may().get(b.id, set()):
                    ctx.check(f['always_ok'], k + ':always-runs', where(b, f['cs'].point), 'no successful exit of the position pass avoids the loop over the empty queues',
                              'the position pass can return successfully without walking the empty queues (early return on a cached state): files would be unlinked without the positions having been recorded in a surviving file')
            ctx.check(bool(f['yielders']) and all(ok for (_y, ok) in f['yielders']), k + ':only-empty', where(b, f['cs'].point),
                      'items are yielded only under the true edge of MemQueue::is_empty',
                      'the iterator feeding the position pass may yield non-empty queues (replaying their position would reset them)')


def write_sites_between(ctx, b, s_point, u_point):
    ws = ctx.E.may_sites(b, 'WRITE')
    after = b.reach_after(s_point)
    out = []
    for w in ws:
        if w == s_point:
            continue
        if w in after and (w == u_point or u_point in b.reach([w])):
            if w != u_point:
                out.append(w)
    return out


def durable_before(ctx, b, point, depth=0, seen=None):
    """GC2 obligation at (b, point). Returns (ok, explanation)."""
    if seen is None:
        seen = set()
    if (b.id, point) in seen or depth > 12:
        return True, 'cycle'
    seen.add((b.id, point))
    pred = s_site(ctx)
    for cs in b.calls:
        if cs.point == point or not pred(b, cs) or not b.dominates(cs.point, point):
            continue
        between = write_sites_between(ctx, b, cs.point, point)
        if not between:
            return True, 'flush+fsync at %s dominates, no WAL write in between' % b.loc(cs.point)
    # no S here: any WRITE between entry and point makes lifting impossible
    ws = [w for w in ctx.E.may_sites(b, 'WRITE') if w != point and b.is_live_point(w) and point in b.reach([w])]
    if ws:
        return False, 'WAL write at %s reaches the removal with no flush+fsync in between (in %s)' % (b.loc(ws[0]), b.path)
    is_root = any(r['node'] == b.id for r in ctx.f.roots)
    cal = callers_of(ctx, b)
    if is_root or not cal:
        return False, 'no flush+fsync on the path from the API entry %s (earlier calls may have left buffered entries)' % b.path
    for (cb, cs) in cal:
        ok, why = durable_before(ctx, cb, cs.point, depth + 1, seen)
        if not ok:
            return False, why
    return True, 'every caller persists first'


@rule('GC2', ['C03'], floor=1, template='must-pass-through')
def gc2(ctx):
    """Every unlink is dominated by a must-FLUSH+FSYNC call with no WAL write in between."""
    sites = unlink_prim_sites(ctx)
    if not sites:
        ctx.missing('unlink', 'no UNLINK primitive reachable from the API')
    for (b, cs) in sites:
        ok, why = durable_before(ctx, b, cs.point)
        ctx.check(ok, '%s:%s' % (b.path, cs.path), where(b, cs.point), 'durable before unlink: ' + why,
                  'WAL files can be unlinked while data that supersedes them is only buffered: ' + why)


def acc_idiom_false_edges(ctx, b, logs):
    """False edges of `acc > 0` / `acc != 0` tests whose acc flows from the byte counts of `logs`."""
    fl = flow_of(b)
    t = set()
    for cs in logs:
        t |= fl.forward(fl.call_result_nodes(cs))
    out = []
    for bi, blk in enumerate(b.blocks):
        if not b.live[bi] or blk['term']['k'] != 'switch':
            continue
        c = b.switch_cond(bi)
        if not c or c['kind'] != 'bool':
            continue
        for o in c['origin']:
            if o[0] == 'rv' and o[2]['k'] == 'binop' and o[2]['op'] in ('Gt', 'Ne'):
                a, bb = o[2]['a'], o[2]['b']
                if op_const_bits(bb) == 0 and fl.op_tainted(a, t):
                    e = b.bool_edges(bi)
                    if e:
                        out.append(e[1])
    return out


@rule('GC2w', ['C02', 'C04', 'C01', 'C18'], floor=1, template='must-pass-through')
def gc2w(ctx):
    """Position entries written by the GC pass are flushed+fsynced before anything is unlinked."""
    pred = s_site(ctx)
    n = 0
    for (b, u) in gc_frames(ctx):
        # position-pass calls (or RecordPosition log sites) in b that reach u
        for ps in pass_sites(ctx, b):
            w = ps['cs']
            wb = ps['body']
            if ps['point'] == u.point:
                continue
            if u.point not in b.reach_after(ps['point']):
                continue
            n += 1
            # (a) every path w -> u crosses an S site in b
            cut = [c.point for c in b.calls if pred(b, c)]
            a_ok = u.point not in b.reach_after(ps['point'], avoid=cut)
            # (b) inside the pass: log site -> Ok exit (or, for a pass written in place, -> the unlink) crosses S
            #     except via the acc==0 edge
            b_ok = True
            logs = [f['cs'] for f in ps['facts']]
            cut_b = [c.point for c in wb.calls if pred(wb, c)]
            fe = acc_idiom_false_edges(ctx, wb, logs)
            exits = [u.point] if ps['inline'] else [e['point'] for e in wb.ok_exits()]
            for L in logs:
                r = wb.reach_after(L.point, avoid=cut_b, avoid_edges=fe)
                if any(e in r for e in exits):
                    b_ok = False
            ctx.check(a_ok or b_ok, '%s:%s' % (b.path, wb.path), where(b, u.point),
                      'position entries are durable before the unlink (%s)' % ('persist between pass and unlink' if a_ok else 'the pass persists whenever it wrote something'),
                      'queue positions recorded by the GC pass may still be buffered when files are unlinked')
    if n == 0:
        ctx.missing('frame', 'no (position pass, unlink) pair found')


@rule('GC3', ['C01', 'C02', 'C03', 'C04', 'C18'], floor=1, template='liveness')
def gc3(ctx):
    """The writer's current file is pinned by a live FileNumber clone across the position pass."""
    n = 0
    for (b, u) in gc_frames(ctx):
        passes = [ps['cs'] for ps in pass_sites(ctx, b) if ps['point'] != u.point and u.point in b.reach_after(ps['point'])]
        for w in passes:
            n += 1
            guards = []
            for c in b.calls:
                if c.name == '<%s as std::clone::Clone>::clone' % FN and c.dest_local() is not None and b.dominates(c.point, w.point):
                    guards.append(c)
            good = False
            why = 'no FileNumber clone dominates the position pass'
            for g in guards:
                gl = g.dest_local()
                # drops / moves of g between def and u
                killers = []
                for bi, blk in enumerate(b.blocks):
                    if not b.live[bi]:
                        continue
                    t = blk['term']
                    if t['k'] == 'drop' and t['place']['l'] == gl and not t['place']['p']:
                        killers.append(b.pterm[bi])
                    if t['k'] == 'call':
                        for a in t['args']:
                            if a['k'] == 'move' and a['place']['l'] == gl:
                                killers.append(b.pterm[bi])
                    for si, s in enumerate(blk['stmts']):
                        if s['k'] == 'assign':
                            for o in rvalue_operands(s['rv']):
                                if o['k'] == 'move' and o['place']['l'] == gl:
                                    killers.append(b.pstart[bi] + si)
                after = b.reach_after(g.point)
                bad = [k for k in killers if k in after and u.point in b.reach([k]) and k != u.point]
                # the clone must be of the writer's current file: arg flows from a call returning &FileNumber
                fl = flow_of(b)
                src_ok = False
                back = fl.backward(set(fl.op_nodes(g.args[0])))
                for c in b.calls:
                    if c.dest_local() is not None and b.local_ty(c.dest_local()) == '&' + FN and ('l', c.dest_local()) in back:
                        src_ok = True
                if not bad and src_ok:
                    good = True
                elif bad:
                    why = 'the clone taken at %s is dropped/moved at %s, before the files are removed' % (b.loc(g.point), b.loc(bad[0]))
                else:
                    why = 'the clone does not come from the writer\'s current file accessor'
            ctx.check(good, '%s:guard' % b.path, where(b, w.point), 'current file pinned by a clone that lives until after the unlink',
                      'GC guard missing: ' + why + ' (a roll-over during the position pass would let the file holding the first position entries be deleted)')
    if n == 0:
        ctx.missing('frame', 'no (position pass, unlink) pair found')


# ---- comparisons against constants
def cmp_bounds(b, block):
    """For a bool switch on a comparison with a constant: returns
    (value_operand, {true_edge: (lo, hi), false_edge: (lo, hi)}) bounds on the non-constant side."""
    c = b.switch_cond(block)
    if not c or c['kind'] != 'bool':
        return None
    e = b.bool_edges(block)
    if not e:
        return None
    for o in c['origin']:
        if o[0] == 'rv' and o[2]['k'] == 'binop':
            op = o[2]['op']
            a, bb = o[2]['a'], o[2]['b']
            ca, cb = b.const_eval(a), b.const_eval(bb)
            INF = float('inf')
            if cb is not None and ca is None:
                x, k = a, cb
            elif ca is not None and cb is None:
                x, k = bb, ca
                op = {'Lt': 'Gt', 'Gt': 'Lt', 'Le': 'Ge', 'Ge': 'Le'}.get(op, op)
            else:
                return None
            # `count() - 1 > 1` is a test on count(): see through +/- constant on the tested side
            for _hop in range(4):
                xl = op_local(x)
                if xl is None:
                    break
                d_ = b.single_def(xl)
                if d_ is None or d_[1] != 'assign' or d_[2]['place']['p']:
                    break
                rv_ = d_[2]['rv']
                if rv_['k'] == 'use' and rv_['op']['k'] in ('copy', 'move'):
                    pl_ = rv_['op']['place']
                    if not pl_['p']:
                        x = rv_['op']
                        continue
                    if len(pl_['p']) == 1 and pl_['p'][0]['k'] == 'field' and pl_['p'][0]['i'] == 0:
                        d2 = b.single_def(pl_['l'])
                        if d2 and d2[1] == 'assign' and d2[2]['rv']['k'] == 'binop' and d2[2]['rv']['op'].endswith('WithOverflow'):
                            rv_ = d2[2]['rv']
                        else:
                            break
                    else:
                        break
                if rv_['k'] == 'binop' and rv_['op'].replace('WithOverflow', '') in ('Add', 'Sub'):
                    ca_, cb_ = b.const_eval(rv_['a']), b.const_eval(rv_['b'])
                    base_ = rv_['op'].replace('WithOverflow', '')
                    if cb_ is not None and ca_ is None:
                        k = k + cb_ if base_ == 'Sub' else k - cb_
                        x = rv_['a']
                        continue
                    if ca_ is not None and cb_ is None and base_ == 'Add':
                        k = k - ca_
                        x = rv_['b']
                        continue
                break
            tb = {'Lt': ((-INF, k - 1), (k, INF)), 'Le': ((-INF, k), (k + 1, INF)), 'Gt': ((k + 1, INF), (-INF, k)),
                  'Ge': ((k, INF), (-INF, k - 1)), 'Eq': ((k, k), (-INF, INF)), 'Ne': ((-INF, INF), (k, k))}.get(op)
            if tb is None:
                return None
            return x, {e[0]: tb[0], e[1]: tb[1]}, o
    return None


def tracker_removals(ctx):
    out = []
    for b in ctx.f.bodies.values():
        for cs in b.calls:
            m = re.match(r'^std::collections::BTreeSet::<%s>::(\w+)' % re.escape(FN), cs.name)
            if m and m.group(1) in ('pop_first', 'pop_last', 'remove', 'clear', 'retain', 'split_off', 'take', 'extract_if', 'append'):
                out.append((b, cs, m.group(1)))
    return out



@rule('GC3b', ['C06'], floor=1, template='liveness')
def gc3b(ctx):
    """Across the unlink loop the GC frame holds ONE file handle: the clone of the writer's current file (GC3's guard).
    Any other value of a type that contains a `FileNumber` (a clone of the first file kept "for a log line", an
    `Option<FileNumber>` filled under a debug level) that is built before the unlinks and still alive after them is a
    reference count on a file the pass is there to reclaim: `take_first_unused` refuses it and nothing is ever
    collected -- under the configuration that enables it only."""
    n = 0
    for (b, u) in gc_frames(ctx):
        n += 1
        fl = flow_of(b)
        # the legitimate guard: clones whose argument comes from a call returning the writer's current file
        legit = set()
        for c in b.calls:
            if c.name == '<%s as std::clone::Clone>::clone' % FN and c.dest_local() is not None:
                back = fl.backward(set(fl.op_nodes(c.args[0])))
                if any(c2.path.endswith('current_file') and any(x in back for x in fl.call_result_nodes(c2)) for c2 in b.calls):
                    legit.add(c.dest_local())
        bad = []
        for l in range(b.arg_count + 1, len(b.j['locals'])):
            ty = b.local_ty(l)
            if FN not in ty or ty.startswith('&') or l in legit or 'FileTracker' in ty or 'Directory' in ty or 'RollingWriter' in ty or 'RecordWriter' in ty:
                continue
            dpts = [p for (p, _k, _d) in b.defs.get(l, [])]
            if not any(u.point in b.reach_after(p) for p in dpts):
                continue
            # still alive after the unlinks: dropped / read after them
            after = b.reach_after(u.point)
            alive = False
            for bi, blk in enumerate(b.blocks):
                if not b.live[bi]:
                    continue
                t = blk['term']
                if t['k'] == 'drop' and t['place']['l'] == l and b.pterm[bi] in after:
                    alive = True
            if alive:
                bad.append('_%d: %s (%s)' % (l, ty.split('::')[-1] if '<' not in ty else ty, b.loc(dpts[0]) if dpts else '?'))
        ctx.check(not bad, '%s:only-the-guard-lives-across-gc' % b.path, where(b, u.point), 'no file handle other than the current-file guard is alive across the unlink loop',
                  'a value holding a FileNumber other than the current-file guard is alive across the unlink loop (%s): it counts as a reference to a file the pass is there to reclaim, which is then never collected' % '; '.join(bad))
    if n == 0:
        ctx.missing('frame', 'no GC frame found')


@rule('GC4', ['C01', 'C02', 'C03', 'C06'], floor=1, template='guard-dominates-use')
def gc4(ctx):
    """Only an unreferenced oldest file is popped, and never the last one."""
    rem = tracker_removals(ctx)
    if not rem:
        ctx.missing('removal', 'no removal from the tracked file set found')
    def undo_of_mint(hb, at, key_op):
        """at point `at` of body hb the tracker element `key_op` is removed again because the creation of its file
        failed: the key flows from a call that mints AND inserts a number (FileTracker::inc), and `at` is only reachable
        through the Err edge of a file creation that comes after the mint"""
        from core import result_edges
        flh = flow_of(hb)
        mints = [c for c in hb.calls if c.node is not None and ctx.f.bodies[c.node].path.startswith('rolling::file_number::FileTracker::')
                 and any(c2.path.endswith('FileNumber::new') for c2 in ctx.f.bodies[c.node].calls)]
        for mt in mints:
            t = flh.forward(set(flh.call_result_nodes(mt)))
            if not flh.op_tainted(key_op, t):
                continue
            for c in hb.calls:
                is_create = (c.node is not None and ctx.E.call_may(c, 'CREATE')) or any(p_ == c.point and e_ == 'CREATE' for (p_, e_, _c) in ctx.E.direct_sites(hb))
                if not is_create or c.dest_local() is None or c.point not in hb.reach_after(mt.point):
                    continue
                for ed in result_edges(hb, c.dest_local())['err']:
                    if hb.edge_dominates(ed, at):
                        return True
        return False
    for (b, cs, m) in rem:
        key = '%s:%s' % (b.path, m)
        if m == 'remove' and len(cs.args) > 1:
            # the one legitimate removal by key: un-tracking a number minted a moment ago whose file could not be created
            ok_undo = False
            if not b.path.startswith('rolling::file_number::FileTracker::'):
                ok_undo = undo_of_mint(b, cs.point, cs.args[1])
            else:
                kl = op_local(cs.args[1])
                pidx = []
                for o in (b.trace_local(kl) if kl is not None else []):
                    if o[0] == 'param':
                        pidx.append(o[1])
                    elif o[0] == 'rv' and o[2]['k'] == 'ref' and all(e['k'] == 'deref' for e in o[2]['place']['p']) and 1 <= o[2]['place']['l'] <= b.arg_count:
                        pidx.append(o[2]['place']['l'])         # `&*param`
                from_param = bool(pidx)
                callers = [(hb, c) for hb in ctx.f.bodies.values() for c in hb.calls if c.node == b.id]
                if from_param and callers and pidx:
                    ok_undo = all(len(c.args) >= pidx[0] and undo_of_mint(hb, c.point, c.args[pidx[0] - 1]) for (hb, c) in callers)
            if ok_undo:
                ctx.check(True, key + ':undo-of-mint', where(b, cs.point), 'a number is removed by key only to un-track a freshly minted one whose file could not be created', '')
                continue
        if m != 'pop_first':
            ctx.bad(key, where(b, cs.point), 'tracked files are removed with BTreeSet::%s: only the oldest file may ever be removed (pop_first)' % m)
            continue
        fl = flow_of(b)
        # len >= 2
        len_ok = False
        for bi, blk in enumerate(b.blocks):
            if not b.live[bi] or blk['term']['k'] != 'switch':
                continue
            cb = cmp_bounds(b, bi)
            if not cb:
                continue
            x, bounds, _o = cb
            back = fl.backward(set(fl.op_nodes(x)))
            from_len = any(c.name.endswith('::len') and 'BTreeSet' in c.name and any(nn in back for nn in fl.call_result_nodes(c)) for c in b.calls) or \
                any(c.path.endswith('FileTracker::count') and any(nn in back for nn in fl.call_result_nodes(c)) for c in b.calls)
            if not from_len:
                continue
            for e, (lo, hi) in bounds.items():
                if lo >= 2 and b.edge_dominates(e, cs.point):
                    len_ok = True
                    ctx._gc4_lo = min(getattr(ctx, '_gc4_lo', 1 << 60), lo)
        ctx.check(len_ok, key + ':len>=2', where(b, cs.point), 'removal dominated by the edge on which at least 2 files are tracked',
                  'the oldest file can be popped when fewer than 2 files are tracked (the file being written could be deleted)')
        # can_be_deleted(first())
        cbd_ok = False
        for (bi, c, te, fe, gcs) in b.switches_on_call(lambda c: c.path.endswith('FileNumber::can_be_deleted')):
            back = fl.backward(set(fl.op_nodes(gcs.args[0])))
            from_first = any(re.search(r'::first$', c2.path.split('::<')[0]) or c2.name.endswith('>::first') for c2 in b.calls if any(nn in back for nn in fl.call_result_nodes(c2)))
            if from_first and b.edge_dominates(te, cs.point):
                cbd_ok = True
        ctx.check(cbd_ok, key + ':unreferenced', where(b, cs.point), 'removal dominated by the true edge of can_be_deleted(first())',
                  'the oldest file can be popped without checking that nothing references it')
        # the file handed to the caller (who unlinks it) is the one just popped -- oldest first, one at a time: a
        # batch collected first and handed out from the other end unlinks newest-first, and an interrupted pass
        # leaves a hole (an older file whose truncations / deletions were in the file already gone)
        handed = True
        outs = [e for e in b.exits() if e['kind'] in ('some', 'forward', 'value')]
        for e in outs:
            if e['kind'] == 'forward':
                if e.get('call') is not cs:
                    handed = False
            elif e['kind'] == 'some':
                ol = op_local(e['ops'][0]) if e.get('ops') else None
                org = b.trace_local(ol) if ol is not None else []
                if not org or not all((o[0] == 'call' and o[1] is cs) or (o[0] == 'place' and any(o2[0] == 'call' and o2[1] is cs for o2 in b.trace_local(o[2]['l']))) for o in org):
                    handed = False
            elif e['kind'] == 'value' and b.ret_ty.startswith('std::option::Option<'):
                handed = False
        ctx.check(handed, key + ':handed-out-as-popped', where(b, cs.point), 'the file returned is the one popped in this call',
                  'the file handed out for deletion is not the one just popped from the front of the tracker (batched / reordered removal): files would be unlinked out of order and an interrupted GC leaves a hole in the log')


def name_builders(ctx):
    """Bodies whose result flows from Path::join(dir, FileNumber::filename())."""
    out = []
    for b in ctx.f.bodies.values():
        fl = flow_of(b)
        for j in b.calls:
            if j.name.startswith('std::path::Path::join'):
                back = fl.backward(set(fl.op_nodes(j.args[1]))) if len(j.args) > 1 else set()
                fn_ok = any(c.path.endswith('FileNumber::filename') and any(nn in back for nn in fl.call_result_nodes(c)) for c in b.calls)
                fwd = fl.forward(set(fl.call_result_nodes(j)))
                if fn_ok and ('l', 0) in fwd:
                    out.append(b)
    return out


def built_paths(ctx, b, nb_ids=None):
    """Path values of body b built by the WAL name builder: [(value nodes, backward slice of the file-number input)].
    Either a call to a name-builder body, or Path::join(dir, <FileNumber>.filename()) written in place."""
    if nb_ids is None:
        nb_ids = {x.id for x in name_builders(ctx)}
    fl = flow_of(b)
    out = []
    for c in b.calls:
        if c.node in nb_ids:
            back2 = set()
            for a in c.args:
                back2 |= fl.backward(set(fl.op_nodes(a)))
            out.append((set(fl.call_result_nodes(c)), back2, c))
        elif c.name.startswith('std::path::Path::join') and len(c.args) > 1:
            back = fl.backward(set(fl.op_nodes(c.args[1])))
            fns = [f for f in b.calls if f.path.endswith('FileNumber::filename') and any(nn in back for nn in fl.call_result_nodes(f))]
            if fns:
                back2 = set()
                for f in fns:
                    for a in f.args:
                        back2 |= fl.backward(set(fl.op_nodes(a)))
                out.append((set(fl.call_result_nodes(c)), back2, c))
    return out


@rule('GC5', ['C01', 'C02', 'C06', 'C17', 'C12'], floor=1, template='provenance+pairing')
def gc5(ctx):
    """What is unlinked is exactly the file that was just popped from the tracker."""
    nb = {b.id for b in name_builders(ctx)}
    if not nb:
        ctx.missing('name-builder', 'no body builds a path from Path::join(dir, FileNumber::filename())')
    for (b, u) in unlink_prim_sites(ctx):
        fl = flow_of(b)
        back = fl.backward(set(fl.op_nodes(u.args[0])))
        builders = [(vals, back2, c) for (vals, back2, c) in built_paths(ctx, b, nb) if vals & back]
        prov = False
        rem_calls = []
        for (_vals, back2, c) in builders:
            for r in b.calls:
                if r.node is not None and ctx.E.call_may(r, 'TRACK') and any(nn in back2 for nn in fl.call_result_nodes(r)):
                    prov = True
                    rem_calls.append(r)
        ctx.check(prov, '%s:%s:provenance' % (b.path, u.path), where(b, u.point), 'unlinked path = name builder(value popped from the tracker)',
                  'the path handed to the unlink primitive is not built by the name builder from the file popped from the tracker')
        # pairing: from the Some edge of the removal every path back to the loop header passes the unlink
        for r in set(rem_calls):
            pair_ok = None
            for (bi, pl, adt, edges) in b.discr_switches():
                if pl['l'] == r.dest_local() and 'Some' in edges:
                    loops = in_loop(b, r.point)
                    if not loops:
                        continue
                    tgt = edges['Some'][1]
                    hdr = b.pstart[loops[0]['header']]
                    rr = b.reach([tgt], avoid=[u.point])
                    pair_ok = hdr not in rr and r.point not in rr
            if pair_ok is not None:
                ctx.check(pair_ok, '%s:%s:pairing' % (b.path, u.path), where(b, u.point), 'every popped file is unlinked before the next one is popped',
                          'a file can be popped from the tracker without being unlinked (it would stay on disk, untracked)')


@rule('GC6', ['C06'], floor=1, template='sibling-agreement')
def gc6(ctx):
    """The GC trigger and the GC action test the same thing (>= 2 files, first unreferenced)."""
    n = 0
    for (b, u) in gc_frames(ctx):
        for (bi, c, te, fe, tcs) in b.switches_on_call(lambda c: c.node is not None and c.body.local_ty(c.dest_local() or 0) == 'bool'):
            if not b.edge_dominates(te, u.point):
                continue
            t = ctx.f.bodies[tcs.node]
            # the trigger may delegate to a predicate of the tracker: analyse it with its crate-local callees in
            # place (A-INLINE on demand), except the three accessors the test is made of
            t = ctx.f.inlined(t, lambda cb: not (cb.path.endswith('FileNumber::can_be_deleted') or cb.path.endswith('FileTracker::count') or cb.ret_ty.startswith('&rolling::file_number::FileNumber')) and len(cb.blocks) < 60, 'gc6')
            fl = flow_of(t)
            cbd = [c2 for c2 in t.calls if c2.path.endswith('FileNumber::can_be_deleted')]
            if not cbd:
                continue
            n += 1
            ok = False
            for c2 in cbd:
                fwd = fl.forward(set(fl.call_result_nodes(c2)))
                res_ok = ('l', 0) in fwd or c2.dest_local() == 0
                back = fl.backward(set(fl.op_nodes(c2.args[0])))
                first_ok = any(('first' in c3.path.split('::')[-1]) and any(nn in back for nn in fl.call_result_nodes(c3)) for c3 in t.calls)
                len_ok = False
                for bj, blk in enumerate(t.blocks):
                    if not t.live[bj] or blk['term']['k'] != 'switch':
                        continue
                    cb = cmp_bounds(t, bj)
                    if not cb:
                        continue
                    x, bounds, _o = cb
                    backx = fl.backward(set(fl.op_nodes(x)))
                    from_len = any((c3.path.endswith('FileTracker::count') or (c3.name.endswith('::len') and 'BTreeSet' in c3.name)) and any(nn in backx for nn in fl.call_result_nodes(c3)) for c3 in t.calls)
                    if from_len:
                        for e, (lo, hi) in bounds.items():
                            if lo == 2 and t.edge_dominates(e, c2.point):
                                len_ok = True
                if res_ok and first_ok and len_ok:
                    ok = True
            ctx.check(ok, '%s:%s' % (b.path, t.path), where(b, tcs.point), 'trigger = (count >= 2 && first().can_be_deleted()), same test as the removal',
                      'the GC trigger does not test (count >= 2 and first file unreferenced): files may never be reclaimed, or GC may run for nothing')
    if n == 0:
        ctx.missing('trigger', 'no boolean trigger calling can_be_deleted guards the GC pass')
    # the action keeps exactly as many files as the trigger assumes (2): re-derive the action's bound
    lo_found = None
    for (b, cs, m) in tracker_removals(ctx):
        fl = flow_of(b)
        for bi, blk in enumerate(b.blocks):
            if not b.live[bi] or blk['term']['k'] != 'switch':
                continue
            cb = cmp_bounds(b, bi)
            if not cb:
                continue
            x, bounds, _o = cb
            back = fl.backward(set(fl.op_nodes(x)))
            if not any(c.name.endswith('::len') and 'BTreeSet' in c.name and any(nn in back for nn in fl.call_result_nodes(c)) for c in b.calls):
                continue
            for e, (lo, hi) in bounds.items():
                if b.edge_dominates(e, cs.point) and lo != float('-inf'):
                    lo_found = lo if lo_found is None else min(lo_found, lo)
    if lo_found is not None:
        ctx.check(lo_found == 2, 'action-bound', '-', 'the removal runs as soon as 2 files are tracked (same bound as the trigger)',
                  'the removal requires at least %s tracked files but the trigger fires at 2: an unreferenced oldest file is kept although GC was triggered' % lo_found, nontrivial=False)


@rule('GC7', ['C06'], floor=3, template='must-pass-through')
def gc7(ctx):
    """truncate / delete_queue / open reach the GC pass on every successful path."""
    for b in api_mut(ctx):
        kw = kinds_written(ctx, b)
        if not (set(kw) & {'Truncate', 'DeleteQueue'}):
            continue
        cut = [cs.point for cs in b.calls if cs.node is not None and ctx.E.call_may(cs, 'UNLINK')]
        mems = [m for m in ctx.E.may_sites(b, 'MEM') if m not in cut]
        exits = [e['point'] for e in b.ok_exits()]
        bad = []
        for m in mems:
            r = b.reach_after(m, avoid=cut)
            if any(e in r for e in exits):
                bad.append(m)
        ctx.check(not bad and bool(mems), '%s:gc-reached' % b.path, where(b, mems[0] if mems else b.entry), 'every success path after the in-memory update runs the GC pass',
                  'a success path after the in-memory update skips the GC pass: files made unreferenced by this call are not reclaimed')
    for b in open_bodies(ctx):
        cut = [cs.point for cs in b.calls if cs.node is not None and ctx.E.call_may(cs, 'UNLINK')]
        exits = [e['point'] for e in b.ok_exits()]
        r = b.reach([b.entry], avoid=cut)
        bad = [e for e in exits if e in r and e not in cut]
        ctx.check(not bad, '%s:gc-reached' % b.path, where(b, exits[0] if exits else b.entry), 'open runs the GC pass before returning the log',
                  'open can return a log without having run the GC pass')


@rule('GC8', ['C01', 'C06', 'C17', 'C18'], floor=4, template='type/structure')
def gc8(ctx):
    """One shared reference count per file: FileNumber = Arc<u64>, derived Clone, count == 1 test,
    fresh handles only minted by the tracker."""
    a = ctx.f.adts.get(FN)
    if not a:
        ctx.missing('adt', 'rolling::file_number::FileNumber not found')
        return
    fields = a['variants'][0]['fields']
    ctx.check(len(fields) == 1 and fields[0]['ty'].replace(' ', '') == 'std::sync::Arc<u64>', 'field-type', a['span'],
              'FileNumber wraps exactly one Arc<u64>', 'FileNumber no longer wraps exactly one Arc<u64> (got %s): handles would not share a count' % [f['ty'] for f in fields], nontrivial=False)
    clones = ctx.fn('<%s as std::clone::Clone>::clone' % FN)
    if not clones:
        ctx.missing('clone', 'Clone impl of FileNumber not found')
    for c in clones[:1]:
        arc_clone = any(cs.name.startswith('<std::sync::Arc<u64> as std::clone::Clone>::clone') for cs in c.calls)
        fresh = any('Arc::<u64>::new' in cs.name or 'Arc::<u64>::from' in cs.name for cs in c.calls)
        ctx.check(arc_clone and not fresh, 'clone-shares', c.span, 'Clone clones the Arc (shared count)',
                  'FileNumber::clone does not (only) clone the Arc: clones would not be counted', nontrivial=False)
    cbd = ctx.fn('FileNumber::can_be_deleted')
    if not cbd:
        ctx.missing('can_be_deleted', 'FileNumber::can_be_deleted not found')
    for c in cbd[:1]:
        ok = False
        fl = flow_of(c)
        for cs in c.calls:
            if cs.name.startswith('std::sync::Arc::<u64>::strong_count'):
                t = fl.forward(set(fl.call_result_nodes(cs)))
                for (p, kind, data) in c.defs.get(0, []):
                    if kind == 'assign' and data['rv']['k'] == 'binop' and data['rv']['op'] == 'Eq':
                        a1, b1 = data['rv']['a'], data['rv']['b']
                        if (fl.op_tainted(a1, t) and op_const_bits(b1) == 1) or (fl.op_tainted(b1, t) and op_const_bits(a1) == 1):
                            ok = True
        ctx.check(ok, 'count==1', c.span, 'can_be_deleted is Arc::strong_count == 1', 'can_be_deleted is not exactly (Arc::strong_count == 1)')
    # who mints fresh handles
    minters = set()
    for b in list(ctx.f.bodies.values()) + ctx.f.poly:
        for cs in b.calls:
            if cs.path.endswith('FileNumber::new') or ('Arc::<u64>::new' in cs.name):
                minters.add(b.path)
        for (_p, fj) in b.fn_values:
            if strip_crate(fj.get('path', '')).endswith('FileNumber::new'):
                minters.add(b.path)
    allowed = lambda p: re.match(r'^rolling::file_number::(FileTracker|FileNumber)::', p) is not None
    bad = sorted(p for p in minters if not allowed(p))
    ctx.check(not bad and bool(minters), 'minters', '-', 'fresh FileNumbers are minted only inside FileTracker/FileNumber (%s)' % sorted(minters),
              'a fresh (uncounted) FileNumber is minted outside the tracker: %s' % bad, nontrivial=False)


@rule('GC9', ['C06'], floor=2, template='inventory')
def gc9(ctx):
    """Who may hold a file handle; no leak primitives anywhere."""
    holders = set()
    for a in ctx.f.adts.values():
        if a.get('is_test_item'):
            continue
        for v in a['variants']:
            for f in v['fields']:
                if 'FileNumber' in f['ty']:
                    holders.add('%s.%s' % (a['path'].split('::')[-1], f['name']))
    allowed = {'RecordMeta.file_number', 'RollingReader.file_number', 'RollingWriter.file_number', 'FileTracker.files'}
    # only types that can be stored for longer than a call matter: those contained (transitively, by field type)
    # in the log itself or in the recovery reader; a private struct used as a return value is transient
    contains = {}
    for a in ctx.f.adts.values():
        if a.get('is_test_item'):
            continue
        short = a['path'].split('::')[-1]
        for v in a['variants']:
            for f in v['fields']:
                for a2 in ctx.f.adts.values():
                    s2 = a2['path'].split('::')[-1]
                    if re.search(r'(?<![A-Za-z0-9_])' + re.escape(s2) + r'(?![A-Za-z0-9_])', f['ty']):
                        contains.setdefault(short, set()).add(s2)
    long_lived = set()
    stack = ['MultiRecordLog', 'RollingReader', 'RecordReader', 'FrameReader']
    while stack:
        x = stack.pop()
        if x in long_lived:
            continue
        long_lived.add(x)
        stack.extend(contains.get(x, ()))
    extra = sorted(h for h in holders - allowed if h.split('.')[0] in long_lived)
    ctx.check(not extra, 'holders', '-', 'FileNumber handles live only in %s' % sorted(holders),
              'a new long-lived holder of a FileNumber appeared: %s (a cached handle pins its WAL file forever)' % extra, nontrivial=False)
    leaks = []
    for b in list(ctx.f.bodies.values()) + ctx.f.poly:
        if b.is_test:
            continue
        for (p, e, cs) in ctx.E.direct_sites(b):
            if e == 'LEAK':
                leaks.append('%s@%s' % (cs.name, b.loc(p)))
    ctx.check(not leaks, 'leaks', '-', 'no mem::forget / ManuallyDrop / Arc::into_raw / leak anywhere in the crate',
              'leak primitive used: %s (a leaked FileNumber is never released)' % leaks, nontrivial=False)
