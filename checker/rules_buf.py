"""Group RB: the in-memory ring buffer hands out exactly the window it was asked for."""
import re

from core import op_local, op_const_bits, strip_crate, strip_generics, place_str, mem_loc
from engine import rule
from flow import flow_of
from vocab import where


def _base_place(b, op, depth=0):
    """the place a (re-)borrowed slice reference ultimately points to, as a string ('_20.0'); through `&*x`, copies"""
    if op['k'] not in ('copy', 'move'):
        return None
    pl = op['place']
    if [e for e in pl['p'] if e['k'] != 'deref'] or depth > 8:
        return place_str({'l': pl['l'], 'p': [e for e in pl['p'] if e['k'] != 'deref']})
    sd = b.single_def(pl['l'])
    if sd and sd[1] == 'assign' and not sd[2]['place']['p']:
        rv = sd[2]['rv']
        if rv['k'] == 'ref':
            inner = rv['place']
            return _base_place(b, {'k': 'copy', 'place': inner}, depth + 1)
        if rv['k'] in ('use', 'cast') and rv['op']['k'] in ('copy', 'move'):
            return _base_place(b, rv['op'], depth + 1)
    return place_str(pl)


def _def_call(b, op, depth=0):
    """the call whose result operand op (a reference, re-borrowed / copied any number of times) is"""
    if op['k'] not in ('copy', 'move') or depth > 10:
        return None
    pl = op['place']
    if [e for e in pl['p'] if e['k'] != 'deref']:
        return None
    sd = b.single_def(pl['l'])
    if sd is None:
        return None
    if sd[1] == 'call':
        return sd[2]
    if sd[1] == 'assign' and not sd[2]['place']['p']:
        rv = sd[2]['rv']
        if rv['k'] == 'ref':
            return _def_call(b, {'k': 'copy', 'place': rv['place']}, depth + 1)
        if rv['k'] in ('use', 'cast') and rv['op']['k'] in ('copy', 'move'):
            return _def_call(b, rv['op'], depth + 1)
    return None


def _add(f, g, sg=1):
    t = dict(f[0])
    for (k, c) in g[0].items():
        t[k] = t.get(k, 0) + sg * c
    return ({k: c for (k, c) in t.items() if c}, f[1] + sg * g[1])


def _show(f):
    def leaf(k):
        if k[0] == 'call':
            return '%s(%s)' % (k[1].split('::')[-1], ', '.join(k[2]) if len(k) > 2 else '')
        if k[0] == 'local':
            return '_%d' % k[1]
        return str(k[-1])
    return ' + '.join(['%s%s' % ('' if c == 1 else ('-' if c == -1 else '%d*' % c), leaf(k)) for (k, c) in sorted(f[0].items(), key=str)] + ([str(f[1])] if f[1] or not f[0] else []))


@rule('RB1', ['C01', 'C08'], floor=2, template='provenance')
def rb1(ctx):
    """`RollingBuffer::get_range(start..end)` hands out exactly bytes [start, end) of the logical buffer, in each of
    its cases (window inside the first half of the ring, inside the second, across the wrap point): the pieces it
    returns, placed at their offset in the logical buffer (second-half offsets are shifted by the length of the first
    half), start at `start`, follow one another without gap or overlap, and stop at `end`. The wrap-around case is
    the one no test reaches without filling, truncating and re-filling the ring; a window that is too long there
    appends bytes of the following records to a record's payload, silently."""
    bs = ctx.fn('mem::rolling_buffer::RollingBuffer::get_range')
    if not bs:
        ctx.missing('get_range', 'RollingBuffer::get_range not found')
        return
    b = bs[0]
    fl = flow_of(b)
    sl = [cs for cs in b.calls if re.search(r'VecDeque::<u8>::as_slices$', cs.name)]
    sb = [cs for cs in b.calls if cs.name.endswith('::start_bound')]
    eb = [cs for cs in b.calls if cs.name.endswith('::end_bound')]
    if not sb or not eb:
        ctx.missing('bounds', 'get_range does not read its range through start_bound / end_bound')
        return
    T = place_str({'l': sl[0].dest_local(), 'p': []}) if sl and sl[0].dest_local() is not None else None
    lenL = ('call', 'core::slice::::len', ('%s.0' % T,))
    lenR = ('call', 'core::slice::::len', ('%s.1' % T,))
    s_nodes = set().union(*[set(fl.call_result_nodes(c)) for c in sb])
    e_nodes = set().union(*[set(fl.call_result_nodes(c)) for c in eb])
    def kind_of_local(l):
        back = fl.backward(set(fl.local_sources(l)), skip_mem=True)
        s_, e_ = bool(back & s_nodes), bool(back & e_nodes)
        return 'S' if (s_ and not e_) else ('E' if (e_ and not s_) else None)
    def norm(f):
        """rewrite ('local', l) leaves into S / E where they are the requested bounds"""
        t = {}
        for (k, c) in f[0].items():
            if k[0] == 'local':
                kd = kind_of_local(k[1])
                if kd:
                    k = (kd,)
            t[k] = t.get(k, 0) + c
        return ({k: c for (k, c) in t.items() if c}, f[1])
    def aff(op):
        f = b.affine(op, phi=True)
        return norm(f) if f is not None else None
    S, E, ZERO = ({('S',): 1}, 0), ({('E',): 1}, 0), ({}, 0)
    def piece(op):
        """logical interval [lo, hi) of the slice held in operand op, or None"""
        cs = _def_call(b, op)
        if cs is None:
            return None
        if re.search(r'ops::Index<std::ops::Range(To|From|Inclusive|ToInclusive)?<usize>>', cs.name) and len(cs.args) == 2:
            part = _base_place(b, cs.args[0])
            which = 'L' if part == '%s.0' % T else ('R' if part == '%s.1' % T else None)
            if which is None:
                return None
            rng = None
            rl = op_local(cs.args[1])
            for o in (b.trace_local(rl) if rl is not None else []):
                if o[0] == 'rv' and o[2]['k'] == 'agg' and re.search(r'ops::Range(To|From|Inclusive|ToInclusive)?$', o[2].get('adt') or ''):
                    rng = o[2]
            if rng is None:
                return None
            nm = rng['adt'].split('::')[-1]
            ops = rng['ops']
            lo = hi = None
            if nm == 'Range':
                lo, hi = aff(ops[0]), aff(ops[1])
            elif nm == 'RangeFrom':
                lo, hi = aff(ops[0]), ({(lenL if which == 'L' else lenR): 1}, 0)
            elif nm == 'RangeTo':
                lo, hi = ZERO, aff(ops[0])
            elif nm == 'RangeToInclusive':
                lo, hi = ZERO, aff(ops[0])
                hi = _add(hi, ({}, 1)) if hi is not None else None
            else:
                return None
            if lo is None or hi is None:
                return None
            if which == 'R':
                lo, hi = _add(lo, ({lenL: 1}, 0)), _add(hi, ({lenL: 1}, 0))
            return (lo, hi)
        return None
    def iter_window(op):
        """[lo, hi) of `self.buffer.iter().skip(a).take(n)` / `.range(a..b)` chains feeding a collect"""
        cs = _def_call(b, op) if op['k'] in ('copy', 'move') else None
        lo, n_, hops = ZERO, None, 0
        cur = op
        while hops < 8:
            hops += 1
            l = op_local(cur)
            sd = b.single_def(l) if l is not None else None
            if sd is None:
                return None
            if sd[1] == 'assign' and not sd[2]['place']['p'] and sd[2]['rv']['k'] in ('use', 'cast') and sd[2]['rv']['op']['k'] in ('copy', 'move'):
                cur = sd[2]['rv']['op']
                continue
            if sd[1] != 'call':
                return None
            c = sd[2]
            m = c.name
            if re.search(r'Iterator>?::(copied|cloned|collect|into_iter|by_ref)(::<.*>)?$', m) or re.search(r'::(copied|cloned)$', m):
                cur = c.args[0]
            elif re.search(r'::take$', m) and len(c.args) == 2:
                if n_ is not None:
                    return None
                n_ = aff(c.args[1])
                cur = c.args[0]
            elif re.search(r'::skip$', m) and len(c.args) == 2:
                if n_ is None and lo != ZERO:
                    return None
                a = aff(c.args[1])
                if a is None:
                    return None
                if n_ is not None and False:
                    return None
                lo = _add(lo, a)
                cur = c.args[0]
            elif re.search(r'VecDeque::<u8>::iter$', m):
                total = ({lenL: 1, lenR: 1}, 0)
                return (lo, _add(lo, n_) if n_ is not None else total)
            else:
                return None
        return None
    n = 0
    for bi, blk in enumerate(b.blocks):
        if not b.live[bi]:
            continue
        for si, st in enumerate(blk['stmts']):
            if st['k'] != 'assign' or st['rv']['k'] != 'agg' or not re.search(r'borrow::Cow$', st['rv'].get('adt') or ''):
                continue
            p = b.pstart[bi] + si
            var = st['rv'].get('variant')
            vname = var if isinstance(var, str) else ('Borrowed' if var == 0 else 'Owned')
            pieces = None
            if vname == 'Borrowed':
                pc = piece(st['rv']['ops'][0])
                pieces = [pc] if pc else None
            else:
                vl = op_local(st['rv']['ops'][0])
                root = None
                for o in (b.trace_local(vl) if vl is not None else []):
                    if o[0] == 'call':
                        root = o[1]
                if root is not None and re.search(r'Vec::<u8>::(with_capacity|new)$', root.name):
                    vroot = root.dest_local()
                    exts = [cs for cs in b.calls if re.search(r'Vec::<u8>::extend_from_slice$', cs.name) and _base_place(b, cs.args[0]) == place_str({'l': vroot, 'p': []}) and b.dominates(cs.point, p)]
                    exts.sort(key=lambda c: c.point)
                    pcs = [piece(cs.args[1]) for cs in exts]
                    pieces = pcs if pcs and all(pcs) else None
                elif root is not None and re.search(r'::collect(::<.*>)?$', root.name):
                    w = iter_window(root.args[0])
                    pieces = [w] if w else None
                elif root is not None and re.search(r'(to_vec|to_owned)$', root.name):
                    pc = piece(root.args[0])
                    pieces = [pc] if pc else None
            if not pieces:
                continue        # a form this rule does not read: no verdict on this exit
            n += 1
            probs = []
            if _add(pieces[0][0], S, -1) != ZERO:
                probs.append('starts at %s, not at the requested start' % _show(pieces[0][0]))
            for i in range(1, len(pieces)):
                if _add(pieces[i][0], pieces[i - 1][1], -1) != ZERO:
                    probs.append('piece %d starts at %s but piece %d ended at %s' % (i + 1, _show(pieces[i][0]), i, _show(pieces[i - 1][1])))
            if _add(pieces[-1][1], E, -1) != ZERO:
                probs.append('stops at %s, not at the requested end' % _show(pieces[-1][1]))
            ctx.check(not probs, 'get_range:exact-window#%d' % n, where(b, p), 'the %d piece(s) returned here cover exactly [start, end)' % len(pieces),
                      'get_range returns a window that is not the one asked for (%s; S/E = requested start/end, len(%s.0) = length of the first half of the ring): a record would be read back with bytes missing or with bytes of its neighbours' % ('; '.join(probs), T))
    if n == 0:
        ctx.missing('windows', 'no return of get_range could be read as slices of the two halves of the ring')


def _meta_read(b, op, depth=0):
    """operand op is a read of a RecordMeta field through a reference obtained from the meta vector: returns
    (field, how, index form) with how = 'index' (`metas[i]`), 'get' (`metas.get(i)` on its Some arm), 'last', 'first';
    None otherwise. Follows copies."""
    if op['k'] not in ('copy', 'move') or depth > 8:
        return None
    pl = op['place']
    if not pl['p']:
        sd = b.single_def(pl['l'])
        if sd and sd[1] == 'assign' and not sd[2]['place']['p'] and sd[2]['rv']['k'] in ('use', 'cast') and sd[2]['rv']['op']['k'] in ('copy', 'move'):
            return _meta_read(b, sd[2]['rv']['op'], depth + 1)
        return None
    m = mem_loc(pl)
    if not m or not m.startswith('RecordMeta.'):
        return None
    # the reference the field is read through
    base = {'k': 'copy', 'place': {'l': pl['l'], 'p': []}}
    hops = 0
    while hops < 10:
        hops += 1
        l = op_local(base)
        sd = b.single_def(l) if l is not None else None
        if sd is None:
            return None
        if sd[1] == 'call':
            cs = sd[2]
            if re.search(r'ops::Index<usize>>::index$', cs.name) and len(cs.args) == 2:
                return (m.split('.', 1)[1], 'index', b.affine(cs.args[1], phi=True))
            if re.search(r'::(last|last_mut)$', cs.name):
                return (m.split('.', 1)[1], 'last', None)
            if re.search(r'::(first|first_mut)$', cs.name):
                return (m.split('.', 1)[1], 'first', None)
            return None
        if sd[1] != 'assign' or sd[2]['place']['p']:
            return None
        rv = sd[2]['rv']
        if rv['k'] == 'ref':
            ip = rv['place']
            if all(e['k'] == 'deref' for e in ip['p']):
                base = {'k': 'copy', 'place': {'l': ip['l'], 'p': []}}
                continue
            return None
        if rv['k'] in ('use', 'cast') and rv['op']['k'] in ('copy', 'move'):
            ip = rv['op']['place']
            if not ip['p']:
                base = rv['op']
                continue
            # `(_10 as Some).0` of a `get(i)` result
            if len(ip['p']) == 2 and ip['p'][0]['k'] == 'downcast' and ip['p'][1]['k'] == 'field':
                sd2 = b.single_def(ip['l'])
                if sd2 and sd2[1] == 'call' and re.search(r'::get(::<usize>)?$', sd2[2].name) and len(sd2[2].args) == 2:
                    return (m.split('.', 1)[1], 'get', b.affine(sd2[2].args[1], phi=True))
                if sd2 and sd2[1] == 'call' and re.search(r'::(last|last_mut)$', sd2[2].name):
                    return (m.split('.', 1)[1], 'last', None)
                if sd2 and sd2[1] == 'call' and re.search(r'::(first|first_mut)$', sd2[2].name):
                    return (m.split('.', 1)[1], 'first', None)
            return None
        return None
    return None


def _meta_read_alts(b, op, depth=0):
    """alternatives of operand op (a local assigned on several paths): list of _meta_read results, ('const', v) for a
    constant, ('other',) for anything else"""
    if op['k'] == 'const':
        return [('const', op_const_bits(op))]
    if op['k'] in ('copy', 'move') and not op['place']['p'] and depth < 6:
        ds = b.defs.get(op['place']['l'], [])
        if len(ds) > 1 and all(kind == 'assign' and not data['place']['p'] and data['rv']['k'] in ('use', 'cast') for (_p, kind, data) in ds):
            out = []
            for (_p, kind, data) in ds:
                out.extend(_meta_read_alts(b, data['rv']['op'], depth + 1))
            return out
        if len(ds) == 1 and ds[0][1] == 'assign' and not ds[0][2]['place']['p'] and ds[0][2]['rv']['k'] in ('use', 'cast') and ds[0][2]['rv']['op']['k'] == 'const':
            return [('const', op_const_bits(ds[0][2]['rv']['op']))]
    r = _meta_read(b, op)
    return [r] if r is not None else [('other',)]


@rule('RB2', ['C01', 'C08'], floor=2, template='provenance')
def rb2(ctx):
    """A record handed out by a queue is cut from the payload buffer at ITS OWN bounds: wherever a `Record` is built
    from `get_range(a..b)` / `get_range(a..)`, `a` is the `start_offset` of the meta whose `position` the record
    carries, and `b` is the `start_offset` of the meta right after it (index + 1) -- an open end only where there is no
    next meta (the `None` arm of `get(i + 1)`, or the last meta). One index off, and every record is read back with the
    bytes of its neighbour, CRCs and positions intact."""
    n = 0
    for b in ctx.f.bodies.values():
        if b.generic_dup() or b.is_test or not b.path.startswith('mem::queue::MemQueue::'):
            continue
        grs = [cs for cs in b.calls if cs.path.endswith('RollingBuffer::get_range') and len(cs.args) == 2]
        if not grs:
            continue
        # the Record aggregates and the position they carry
        recs = []
        for bi, blk in enumerate(b.blocks):
            if not b.live[bi]:
                continue
            for si, st in enumerate(blk['stmts']):
                if st['k'] == 'assign' and st['rv']['k'] == 'agg' and strip_crate(st['rv'].get('adt') or '').endswith('mem::queue::Record') or \
                        (st['k'] == 'assign' and st['rv']['k'] == 'agg' and strip_crate(st['rv'].get('adt') or '') == 'mem::Record'):
                    recs.append((b.pstart[bi] + si, st['rv']))
        pos_reads = []
        for (p, rv) in recs:
            for o in rv['ops']:
                mr = _meta_read(b, o)
                if mr and mr[0] == 'position':
                    pos_reads.append(mr)
        for k, cs in enumerate(grs):
            rl = op_local(cs.args[1])
            rng = None
            for o in (b.trace_local(rl) if rl is not None else []):
                if o[0] == 'rv' and o[2]['k'] == 'agg' and re.search(r'ops::Range(From)?$', o[2].get('adt') or ''):
                    rng = o[2]
            if rng is None:
                continue
            lo_alts = _meta_read_alts(b, rng['ops'][0])
            hi_alts = _meta_read_alts(b, rng['ops'][1]) if len(rng['ops']) > 1 else None
            fl = flow_of(b)
            def from_metas(op_):
                return ('m', 'RecordMeta.start_offset') in fl.backward(set(fl.op_nodes(op_))) if op_['k'] in ('copy', 'move') else False
            pre = []
            for (nm_, alts_, op_) in (('start', lo_alts, rng['ops'][0]), ('end', hi_alts, rng['ops'][1] if len(rng['ops']) > 1 else None)):
                if alts_ is None:
                    continue
                if any(a_ == ('other',) for a_ in alts_) and from_metas(op_):
                    pre.append('the %s of the window is computed from meta offsets instead of being one' % nm_)
                elif len(alts_) > 1 and any(a_[0] != 'const' and a_ != ('other',) for a_ in alts_):
                    pre.append('the %s of the window is one of several values (%s)' % (nm_, ', '.join('a constant' if a_[0] == 'const' else ('?' if a_ == ('other',) else 'the %s meta\'s %s' % (a_[1], a_[0])) for a_ in alts_)))
            if pre:
                n += 1
                ctx.check(False, '%s:record-window#%d' % (b.path, k + 1), where(b, cs.point), '', 'a record is cut from the payload buffer at the wrong bounds (%s): it would be read back with bytes of its neighbour' % '; '.join(pre))
                continue
            lo = lo_alts[0] if len(lo_alts) == 1 and lo_alts[0][0] not in ('const', 'other') else None
            hi = (hi_alts[0] if len(hi_alts) == 1 and hi_alts[0][0] not in ('const', 'other') else None) if hi_alts is not None else None
            if lo is None or (len(rng['ops']) > 1 and hi is None):
                continue        # not read from the metas in a form this rule follows: no verdict
            n += 1
            probs = []
            if lo[0] != 'start_offset':
                probs.append('the window starts at a meta\'s %s' % lo[0])
            if hi is not None and hi[0] != 'start_offset':
                probs.append('the window ends at a meta\'s %s' % hi[0])
            # same meta as the position
            same = [pr for pr in pos_reads if pr[1] == lo[1] and pr[2] == lo[2]]
            if pos_reads and not same:
                probs.append('the window starts at another meta than the one whose position the record carries')
            if hi is not None:
                if lo[1] == 'index' and hi[1] in ('get', 'index') and lo[2] is not None and hi[2] is not None:
                    d = dict(hi[2][0])
                    for (k_, c_) in lo[2][0].items():
                        d[k_] = d.get(k_, 0) - c_
                    if any(d.values()) or hi[2][1] - lo[2][1] != 1:
                        probs.append('the window ends at the start of meta [i%+d], not of the next one' % (hi[2][1] - lo[2][1]) if not any(d.values()) else 'the window ends at a meta unrelated to the one it starts at')
                else:
                    probs.append('the end of the window is not read from the meta right after the one it starts at')
            else:
                # open end: only where there is no next meta
                if lo[1] == 'index':
                    nxt = [c for c in b.calls if re.search(r'::get(::<usize>)?$', c.name) and c.dest_local() is not None]
                    ok_none = False
                    for c in nxt:
                        for (bi, pl, adt, edges) in b.discr_switches():
                            if pl['l'] == c.dest_local() and 'None' in edges and b.edge_dominates(edges['None'], cs.point):
                                af = b.affine(c.args[1], phi=True)
                                if af is not None and lo[2] is not None and af[0] == lo[2][0] and af[1] - lo[2][1] == 1:
                                    ok_none = True
                    if not ok_none and lo[2] is not None:
                        # ... or under a test of `i + 1` against a bound (`i + 1 >= len`, the length possibly captured from
                        # the enclosing function: its origin is not visible from inside a closure, the test is)
                        for bj, blk2 in enumerate(b.blocks):
                            if not b.live[bj] or blk2['term']['k'] != 'switch':
                                continue
                            c_ = b.switch_cond(bj)
                            if not c_ or c_['kind'] != 'bool':
                                continue
                            for o in c_['origin']:
                                if o[0] == 'rv' and o[2]['k'] == 'binop' and o[2]['op'] in ('Lt', 'Le', 'Gt', 'Ge', 'Eq', 'Ne'):
                                    for side in (o[2]['a'], o[2]['b']):
                                        af = b.affine(side, phi=True)
                                        if af is not None and af[0] == lo[2][0] and af[1] - lo[2][1] == 1:
                                            e_ = b.bool_edges(bj)
                                            if e_ and (b.edge_dominates(e_[0], cs.point) or b.edge_dominates(e_[1], cs.point)):
                                                ok_none = True
                    if not ok_none:
                        probs.append('an open-ended window is cut for a meta that is not known to be the last one')
                elif lo[1] != 'last':
                    probs.append('an open-ended window is cut for a meta that is not the last one')
            ctx.check(not probs, '%s:record-window#%d' % (b.path, k + 1), where(b, cs.point), 'the record is cut at its own start offset and at the start offset of the next meta',
                      'a record is cut from the payload buffer at the wrong bounds (%s): it would be read back with bytes of its neighbour' % '; '.join(probs))
    if n == 0:
        ctx.missing('windows', 'no get_range call of MemQueue could be read as a window between two record metas')


@rule('MA6', ['C16'], floor=2, template='provenance')
def ma6(ctx):
    """The payload buffer reports what it HOLDS: `RollingBuffer::len()` is the length of its byte container and
    `capacity()` its capacity -- nothing added (a logical offset kept for "stable" positions, a counter of bytes ever
    appended). `MemQueue::size()` / `capacity()` take these figures for "bytes held": an offset that grows with every
    partial truncation makes memory_used_bytes grow without bound, above memory_allocated_bytes."""
    n = 0
    ret = {'k': 'copy', 'place': {'l': 0, 'p': []}}
    for (fn, meth) in (('len', 'len'), ('capacity', 'capacity')):
        bs = ctx.fn('mem::rolling_buffer::RollingBuffer::%s' % fn)
        if not bs:
            continue
        b = bs[0]
        alts = b.affine_alts(ret)
        if alts is None:
            alts = [b.affine(ret, phi=True)] if b.affine(ret, phi=True) is not None else None
        af = b.affine(ret, phi=True)
        if af is None:
            continue
        n += 1
        good = af[1] == 0 and len(af[0]) == 1 and all(k_[0] == 'call' and re.search(r'VecDeque::<u8>::%s$|VecDeque::::%s$' % (meth, meth), k_[1]) and c_ == 1 for (k_, c_) in af[0].items())
        ctx.check(good, 'RollingBuffer::%s:is-the-container' % fn, b.span, 'RollingBuffer::%s() is the %s of the byte container' % (fn, meth),
                  'RollingBuffer::%s() answers %s, not the %s of the byte container: the memory figures built on it count bytes that are not held' % (fn, _show(af), meth))
    if n < 2:
        ctx.missing('accessors', 'RollingBuffer::len / capacity not readable as affine forms (%d of 2)' % n)
