#!/bin/bash
# verify_seed.sh <seed_out_dir> <ID> <X>  -> /tmp/vs/<ID>_<X>.json
# Confirms independently: (1) the suite passes with the change, (2) the demo fails with it, (3) the demo passes without it.
SRC="$1"; ID="$2"; X="$3"
D="$SRC/$ID/$X"; W="/tmp/vs/wt_${ID}_$X"; OUT="/tmp/vs/${ID}_$X.json"
export CARGO_NET_OFFLINE=true CARGO_TARGET_DIR="$W/target"
git -C /repo worktree remove --force "$W" 2>/dev/null; rm -rf "$W"
git -C /repo worktree add -q --detach "$W" HEAD || exit 1
cd "$W"
if ! git apply --check "$D/patch.diff" 2>/dev/null; then
  # written against the parent of the fourth repair (b18ff6e) and rewriting the lines it touches: verify it there
  cd /; git -C /repo worktree remove --force "$W"; git -C /repo worktree add -q --detach "$W" 8a84cd9 || exit 1; cd "$W"
fi
git apply "$D/patch.diff" || { echo "{\"id\":\"$ID/$X\",\"error\":\"patch does not apply\"}" > "$OUT"; cd /; git -C /repo worktree remove --force "$W"; exit 0; }
suite=$(cargo test --offline --workspace --no-fail-fast 2>&1 | grep -E "^test result" | head -1)
git apply "$D/demo.diff" || { echo "{\"id\":\"$ID/$X\",\"error\":\"demo does not apply\"}" > "$OUT"; cd /; git -C /repo worktree remove --force "$W"; exit 0; }
demo_with=$(cargo test --offline --workspace --no-fail-fast demo 2>&1 | grep -E "^test result|^test .*(FAILED|ok)$" | tr '\n' ';' | cut -c1-600)
git apply -R "$D/patch.diff"
demo_without=$(cargo test --offline --workspace --no-fail-fast demo 2>&1 | grep -E "^test result|^test .*(FAILED|ok)$" | tr '\n' ';' | cut -c1-600)
python3 - "$ID/$X" "$suite" "$demo_with" "$demo_without" > "$OUT" <<'PY'
import json,sys
print(json.dumps({'id':sys.argv[1],'suite_with_change':sys.argv[2],'demo_with_change':sys.argv[3],'demo_without_change':sys.argv[4]},indent=1))
PY
cd /; git -C /repo worktree remove --force "$W"; rm -rf "$W"
