"""Group PERSIST / ROLL / SIZE / W1 (§5.5): durability ordering."""
import re

from core import op_local, op_const_bits, op_const_named, place_fields, strip_crate, alias_paths, place_path, mem_loc
from engine import rule
from flow import flow_of
from vocab import api_mut, open_bodies, kinds_written, where, root_bodies, MRL

RW = 'rolling::directory::RollingWriter'
BW_WRITE = '<rolling::directory::RollingWriter as block_read_write::BlockWrite>::write'
BW_PERSIST = '<rolling::directory::RollingWriter as block_read_write::BlockWrite>::persist'


def consult_bodies(ctx):
    """policy-consult bodies: bodies that read/borrow MultiRecordLog.next_persist through self."""
    out = []
    for b in ctx.f.bodies.values():
        hit = False
        for bi, blk in enumerate(b.blocks):
            if not b.live[bi]:
                continue
            for st in blk['stmts']:
                if st['k'] == 'assign':
                    rv = st['rv']
                    pls = []
                    if rv['k'] in ('ref', 'discr'):
                        pls.append(rv['place'])
                    for o in ([rv.get('op')] if rv['k'] in ('use', 'cast') else []):
                        if o and o['k'] in ('copy', 'move'):
                            pls.append(o['place'])
                    for pl in pls:
                        if any(f[1] == 'next_persist' and f[0] and f[0].endswith('MultiRecordLog') for f in place_fields(pl)):
                            hit = True
        if hit:
            out.append(b)
    return out


def full_sync_sites(ctx, b):
    return [cs.point for cs in b.calls if ctx.E.call_must(b, cs, 'FLUSH') and ctx.E.call_must(b, cs, 'FSYNC') and ctx.E.call_must(b, cs, 'DIRSYNC')]


def writes_escaping(ctx, b, cut_of, _memo=None, _depth=0):
    """WRITE sites of b from which an Ok exit is reachable without crossing cut_of(body) sites.
    A call whose callee has no escaping write (it persists/consults by itself, e.g. an extracted
    helper) is not an obligation of the caller."""
    if _memo is None:
        _memo = {}
    if b.id in _memo:
        return _memo[b.id]
    _memo[b.id] = []
    cut = cut_of(b)
    exits = [e['point'] for e in b.ok_exits()]
    bad = []
    for w in ctx.E.may_sites(b, 'WRITE'):
        if w in cut:
            continue
        cs = b.call_at.get(w)
        if cs is not None and cs.node is not None and _depth < 6 and ctx.E.call_may(cs, 'WRITE') and (ctx.E.call_may(cs, 'FLUSH') or ctx.E.call_may(cs, 'NOW')):
            cb = ctx.f.bodies[cs.node]
            if cut_of(cb) and not writes_escaping(ctx, cb, cut_of, _memo, _depth + 1):
                continue
        if any(e in b.reach_after(w, avoid=cut) for e in exits):
            bad.append(w)
    _memo[b.id] = bad
    return bad


@rule('PS1', ['C03'], floor=2, template='must-pass-through')
def ps1(ctx):
    """create_queue / delete_queue: every WAL write is followed by flush+fsync+dirsync before Ok."""
    n = 0
    for b in api_mut(ctx):
        kw = kinds_written(ctx, b)
        if not (set(kw) & {'RecordPosition', 'DeleteQueue'}):
            continue
        n += 1
        bad = writes_escaping(ctx, b, lambda x: full_sync_sites(ctx, x))
        wit = None
        if bad:
            cutp = full_sync_sites(ctx, b)
            for e in [x['point'] for x in b.ok_exits()]:
                w_ = b.witness(bad[0], e, avoid=cutp)
                if w_:
                    wit = {'path': w_}
                    break
        ctx.check(not bad, '%s:critical-persist' % b.path, where(b, (bad or [b.entry])[0]), 'every WAL write reaches Ok only through flush+fsync+dirsync (constant FlushAndFsync)',
                  'a critical record (queue creation / deletion) can be acknowledged without flush+fsync+dirsync after the WAL write at %s' % (b.loc(bad[0]) if bad else '-'), detail=wit)
    if n == 0:
        ctx.missing('critical-apis', 'no API body writes RecordPosition / DeleteQueue entries')


@rule('PS2', ['C03'], floor=2, template='must-pass-through')
def ps2(ctx):
    """append / truncate: every WAL write is followed by the policy consult before Ok."""
    cons = {b.id for b in consult_bodies(ctx)}
    if not cons:
        ctx.missing('consult', 'no body reads MultiRecordLog.next_persist')
    n = 0
    for b in api_mut(ctx):
        if b.generic_dup():
            continue
        kw = kinds_written(ctx, b)
        if not (set(kw) & {'AppendRecords', 'Truncate'}):
            continue
        n += 1
        bad = writes_escaping(ctx, b, lambda x: [cs.point for cs in x.calls if cs.node in cons] + full_sync_sites(ctx, x))
        wit = None
        if bad:
            cutp = [cs.point for cs in b.calls if cs.node in cons] + full_sync_sites(ctx, b)
            for e in [x['point'] for x in b.ok_exits()]:
                w_ = b.witness(bad[0], e, avoid=cutp)
                if w_:
                    wit = {'path': w_}
                    break
        ctx.check(not bad, '%s:policy-consulted' % b.path, where(b, (bad or [b.entry])[0]), 'every WAL write reaches Ok only through the policy consult',
                  'a WAL write (at %s) can reach a successful return without consulting the persist policy: under Always the operation is acknowledged unpersisted' % (b.loc(bad[0]) if bad else '-'), detail=wit)
    if n == 0:
        ctx.missing('apis', 'no API body writes AppendRecords / Truncate entries')


@rule('PS3', ['C03'], floor=1, template='must-call+flow')
def ps3(ctx):
    """In the consult body, Some(action) unconditionally leads to persist(action)."""
    bs = consult_bodies(ctx)
    for b in bs:
        if b in open_bodies(ctx):
            continue
        fl = flow_of(b)
        sp = [cs for cs in b.calls if cs.dest_local() is not None and b.local_ty(cs.dest_local()).startswith('std::option::Option<persist_policy::PersistAction')]
        if not sp:
            continue
        for cs in sp:
            known = alias_paths(b, cs.dest_local())
            ok = False
            for (bi, pl, adt, edges) in b.discr_switches():
                if place_path(known, pl) == [()] and 'Some' in edges:
                    srcs = set()
                    for l, paths in known.items():
                        if (('v', 'Some'), ('f', '0')) in paths:
                            srcs |= set(fl.local_sources(l))
                    t = fl.forward(srcs)
                    cut = [c.point for c in b.calls if ctx.E.call_must(b, c, 'FLUSH') and len(c.args) > 1 and fl.op_tainted(c.args[1], t)]
                    exits = [e['point'] for e in b.ok_exits()]
                    r = b.reach([edges['Some'][1]], avoid=cut)
                    if cut and not any(e in r for e in exits):
                        ok = True
            ctx.check(ok, '%s:some-persists' % b.path, where(b, cs.point), 'Some(action) always reaches persist(action) before Ok',
                      'the policy said persist (Some(action)) but a success path skips the persist call, or persists with another action')


def pinned_self_variant_regions(b, param=1):
    """{variant: edge} of the switch on discriminant(*self) / discriminant(param)"""
    out = {}
    for (bi, pl, adt, edges) in b.discr_switches():
        if pl['l'] == param and all(e['k'] == 'deref' for e in pl['p']):
            for k, e in edges.items():
                out[k] = e
    return out


@rule('PS4', ['C03'], floor=1, template='table-composition')
def ps4(ctx):
    """Always(a) -> a state whose should_persist returns Some(a), with no clock and no comparison."""
    conv = [b for b in ctx.f.bodies.values() if b.name.startswith('<persist_policy::PersistState as std::convert::From<persist_policy::PersistPolicy>>::from')]
    sp = ctx.fn('persist_policy::PersistState::should_persist')
    if not conv or not sp:
        ctx.missing('policy-fns', 'From<PersistPolicy> for PersistState / should_persist not found')
        return
    conv, sp = conv[0], sp[0]
    flc = flow_of(conv)
    arms = pinned_self_variant_regions(conv, 1)
    state_variant = None
    if 'Always' in arms:
        region = conv.reach([arms['Always'][1]])
        for e in conv.exits():
            if e['point'] in region and e['kind'] == 'value' and e.get('adt') == 'persist_policy::PersistState':
                # payload flows from (val as Always).0
                t = flc.forward({('lf', 1, 'Always.0'), ('l', 1)})
                if e['ops'] and flc.op_tainted(e['ops'][0], flc.forward({('lf', 1, 'Always.0')})):
                    state_variant = e['variant']
    ctx.check(state_variant is not None, 'always->state', conv.span, 'PersistPolicy::Always(a) maps to PersistState::%s(a)' % state_variant,
              'PersistPolicy::Always(a) is no longer converted into a state carrying the same action a')
    if state_variant is None:
        return
    fls = flow_of(sp)
    arms2 = pinned_self_variant_regions(sp, 1)
    ok = False
    why = 'no arm for ' + state_variant
    if state_variant in arms2:
        region = sp.reach([arms2[state_variant][1]])
        exits = [e for e in sp.exits() if e['point'] in region]
        all_some = bool(exits) and all(e['kind'] == 'some' for e in exits)
        srcs = {('lf', 1, state_variant + '.0'), ('m', 'PersistState.0')}
        t = fls.forward(srcs)
        flows = all(e['ops'] and fls.op_tainted(e['ops'][0], t) for e in exits) if exits else False
        clock = any(p in region for p in ctx.E.may_sites(sp, 'NOW'))
        branches = any(sp.blocks[sp.points[p][0]]['term']['k'] == 'switch' and p == sp.pterm[sp.points[p][0]] for p in region)
        ok = all_some and flows and not clock and not branches
        why = 'all-some:%s flows:%s clock:%s extra-branch:%s' % (all_some, flows, clock, branches)
    ctx.check(ok, 'state->action', sp.span, 'should_persist(%s(a)) = Some(a), unconditionally' % state_variant,
              'should_persist no longer answers Some(a) unconditionally for an Always(a) policy (%s)' % why)


def arm_edges_on_param(b, param):
    out = {}
    for (bi, pl, adt, edges) in b.discr_switches():
        if pl['l'] == param and not pl['p']:
            out.update(edges)
    return out


@rule('PS5', ['C03', 'C04'], floor=2, template='ordered-must-calls')
def ps5(ctx):
    """FlushAndFsync = flush -> fdatasync of the same file -> dirsync, in that order; Flush = flush."""
    bs = [b for b in ctx.f.bodies.values() if b.name == BW_PERSIST]
    if not bs:
        ctx.missing('persist-impl', BW_PERSIST + ' not found')
        return
    b = bs[0]
    arms = arm_edges_on_param(b, 2)
    for arm in ('FlushAndFsync', 'Flush'):
        if arm not in arms:
            ctx.bad('arm:' + arm, b.span, 'persist() has no arm for PersistAction::%s' % arm)
            continue
        tgt = arms[arm][1]
        region = b.reach([tgt])
        exits = [e['point'] for e in b.ok_exits() if e['point'] in region]
        # sites inside the arm, or before the switch (dominating the arm)
        fl_s = [p for p in ctx.E.must_sites(b, 'FLUSH') if p in region or b.dominates(p, tgt)]
        fs_s = [p for (p, e, cs) in ctx.E.direct_sites(b) if e == 'FSYNC' and (p in region or b.dominates(p, tgt))]
        ds_s = [p for p in ctx.E.must_sites(b, 'DIRSYNC') if p in region or b.dominates(p, tgt)]

        def dom_all(sites, targets):
            # every path from the function entry that enters this arm and reaches t passes one of the sites
            return bool(sites) and all(any(p == t or b.dominates(p, t) or (t in b.reach_after(p) and t not in b.reach([tgt], avoid=[p])) for p in sites) for t in targets)
        if arm == 'Flush':
            ok = dom_all(fl_s, exits)
            ctx.check(ok, 'arm:Flush', where(b, tgt), 'Flush arm: flush dominates Ok', 'persist(Flush) can return Ok without flushing the BufWriter')
        else:
            o1 = dom_all(fl_s, fs_s) and bool(fs_s)
            o2 = dom_all(fs_s, ds_s) and bool(ds_s)
            o3 = dom_all(ds_s, exits) and dom_all(fs_s, exits) and dom_all(fl_s, exits)
            # fsync is on the file behind the same BufWriter (get_ref of RollingWriter.file)
            same = False
            fl = flow_of(b)
            for (p, e, cs) in ctx.E.direct_sites(b):
                if e == 'FSYNC' and p in fs_s:
                    back = fl.backward(set(fl.op_nodes(cs.args[0])))
                    if ('m', 'RollingWriter.file') in back:
                        same = True
            ctx.check(o1 and o2 and o3 and same, 'arm:FlushAndFsync', where(b, tgt), 'FlushAndFsync arm: flush -> sync_data(self.file) -> sync_directory -> Ok',
                      'persist(FlushAndFsync) is not flush, then fdatasync of the WAL file, then directory fsync, on every path (flush<fsync:%s fsync<dirsync:%s all-before-Ok:%s same-file:%s)' % (o1, o2, o3, same))


@rule('PS6', ['C03'], floor=1, template='must-calls')
def ps6(ctx):
    """The directory sync opens the directory itself and fsyncs that handle."""
    ds = ctx.E.dirsync_bodies()
    if not ds:
        ctx.missing('dirsync', 'no body opens Directory.dir read-only and fsyncs it')
    for i in ds:
        b = ctx.f.bodies[i]
        fl = flow_of(b)
        opens = [cs for (p, e, cs) in ctx.E.direct_sites(b) if e == 'OPENRO']
        syncs = [cs for (p, e, cs) in ctx.E.direct_sites(b) if e == 'DIRFSYNC']
        exits = [e['point'] for e in b.ok_exits()]
        ok = False
        for o in opens:
            t = fl.forward(set(fl.call_result_nodes(o)))
            for s in syncs:
                if fl.op_tainted(s.args[0], t) and b.dominates(o.point, s.point) and all(e == s.point or (e not in b.reach([b.entry], avoid=[s.point])) for e in exits):
                    ok = True
        ctx.check(ok, '%s:open-then-fsync' % b.path, b.span, 'open(dir) -> sync on that handle dominates Ok', 'the directory sync does not fsync the handle it opened on every success path')


@rule('PS7', ['C03'], floor=3, template='flow')
def ps7(ctx):
    """persist(action) and its wrappers forward the action unchanged to the block writer."""
    n = 0
    seen = set()
    work = [b for b in root_bodies(ctx) if b.path == MRL + '::persist']
    if not work:
        ctx.missing('persist-api', 'MultiRecordLog::persist not found')
    while work:
        b = work.pop()
        if b.id in seen or b.name == BW_PERSIST:
            continue
        seen.add(b.id)
        # param of type PersistAction
        pi = [i for i in range(1, b.arg_count + 1) if b.local_ty(i) == 'persist_policy::PersistAction']
        nxt = [cs for cs in b.calls if cs.node is not None and ctx.E.call_may(cs, 'FLUSH')]
        ok = False
        for cs in nxt:
            for a in cs.args:
                al = op_local(a)
                if al is not None and pi and all(o[0] == 'param' and o[1] == pi[0] for o in b.trace_local(al)):
                    exits = [e['point'] for e in b.ok_exits()]
                    if all(e == cs.point or e not in b.reach([b.entry], avoid=[cs.point]) for e in exits):
                        ok = True
                        work.append(ctx.f.bodies[cs.node])
        n += 1
        ctx.check(ok, '%s:forwards-action' % b.path, b.span, 'the action parameter is forwarded unchanged on every success path',
                  'persist wrapper does not forward its PersistAction unchanged (an explicit persist(FlushAndFsync) could lose the fsync)')
    if n < 3:
        ctx.missing('wrappers', 'fewer than 3 persist wrappers found between the API and the block writer')


def rollover_sites(ctx):
    """(body, point, what) for every replacement of the writer's file handle (store to RollingWriter.file)
    and every file open/create in the same body — wherever that code lives (block writer or a helper)."""
    out = []
    for b in ctx.f.bodies.values():
        if b.generic_dup():
            continue
        stores = [p for (p, pl, rv) in b.stores if mem_loc(pl) == 'RollingWriter.file']
        if not stores:
            continue
        for p in stores:
            out.append((b, p, 'handle replaced'))
        for cs in b.calls:
            if cs.node is not None and (ctx.E.call_may(cs, 'CREATE') or ctx.E.call_may(cs, 'OPENRW')):
                out.append((b, cs.point, 'open/create ' + cs.path.split('::')[-1]))
        for (p, e, cs) in ctx.E.direct_sites(b):
            if e in ('CREATE', 'OPENRW'):
                out.append((b, p, 'open/create'))
    return out


@rule('ROLL1', ['C02', 'C03'], floor=3, template='must-pass-through')
def roll1(ctx):
    """Roll-over: the old file is flushed, fsynced and the directory synced before the next file is
    created/opened and before the writer's handle is replaced."""
    from vocab import lifted_dominated
    sites = rollover_sites(ctx)
    if not sites:
        ctx.missing('rollover', 'no replacement of RollingWriter.file found')
    seen = {}
    for (b, t, what) in sites:
        def dominated_by(effect):
            def pred(bb, cs):
                return (ctx.E.call_must(bb, cs, effect)) if cs.node is not None else (effect in __import__('effects').prim_effects(cs.name))
            ok, _w = lifted_dominated(ctx, b, t, pred)
            return ok
        d1, d2, d3 = dominated_by('FLUSH'), dominated_by('FSYNC'), dominated_by('DIRSYNC')
        # order inside the body that holds them
        fl_s = [p for (p, e, cs) in ctx.E.direct_sites(b) if e == 'FLUSH']
        fs_s = [p for (p, e, cs) in ctx.E.direct_sites(b) if e == 'FSYNC']
        order = (not fl_s or not fs_s) or any(any(b.dominates(f, s) for f in fl_s) for s in fs_s)
        k = '%s:%s' % (b.path, what)
        seen[k] = seen.get(k, 0) + 1
        ctx.check(d1 and d2 and d3 and order, '%s#%d' % (k, seen[k]), where(b, t), '%s dominated by flush, fdatasync, dirsync of the old file' % what,
                  'at roll-over the old WAL file is not flushed+fsynced (+dirsync) before "%s": its tail would only be flushed by Drop, never fsynced (flush:%s fsync:%s dirsync:%s order:%s)' % (what, d1, d2, d3, order))


def offset_restarts(b):
    """stores to RollingWriter.offset that START the offset afresh: the stored value does not depend on the old offset
    (`offset = 0`, or `offset = buf.len()` for "0 + what is about to be written")"""
    from rules_codec import expr_leaves
    out = []
    for (p, pl, rv) in b.stores:
        if mem_loc(pl) != 'RollingWriter.offset' or rv['k'] != 'use':
            continue
        if op_const_bits(rv['op']) == 0:
            out.append(p)
            continue
        if op_const_bits(rv['op']) is not None:
            continue
        lv = expr_leaves(b, rv['op'])
        if lv and not any(x[0] == 'place' and mem_loc(x[2]) == 'RollingWriter.offset' for x in lv) and not any(x[0] == 'other' for x in lv):
            out.append(p)
    return out


@rule('ROLL2', ['C02', 'C06', 'C03'], floor=1, template='pairing')
def roll2(ctx):
    """Roll-over replaces handle, file number and offset together, before the next byte is written."""
    n = 0
    for b in ctx.f.bodies.values():
        if b.generic_dup():
            continue
        fs = [p for (p, pl, rv) in b.stores if mem_loc(pl) == 'RollingWriter.file']
        if not fs:
            continue
        fn_s = [p for (p, pl, rv) in b.stores if mem_loc(pl) == 'RollingWriter.file_number']
        off0 = offset_restarts(b)
        exits = [e['point'] for e in b.ok_exits()] + [p for (p, e, cs) in ctx.E.direct_sites(b) if e == 'WRITE']
        for f in fs:
            n += 1
            def paired(stores):
                if not stores:
                    return False
                # every path from the handle replacement to a write / successful return passes the store (or the store dominates f)
                if any(b.dominates(x, f) for x in stores):
                    return True
                r = b.reach_after(f, avoid=stores)
                return not any(e in r for e in exits)
            ok1, ok2 = paired(fn_s), paired(off0)
            ctx.check(ok1 and ok2, '%s:handle-number-offset' % b.path, where(b, f), 'file handle, file number and offset = 0 are replaced together',
                      'roll-over replaces the file handle without also %s: writes would be attributed to the wrong file / the cursor would be wrong' % ('updating file_number' if not ok1 else 'resetting the offset'))
        # ... and atomically: once the number or the offset has been switched, no failure can leave the body before the
        # handle is switched too (a failed create/open of the next file would leave the writer on the OLD file under
        # the NEW number: the retried write is attributed to the wrong file, which the GC may then unlink)
        errs = [e['point'] for e in b.exits() if e['kind'] in ('err', 'err_prop')]
        k = 0
        for x in sorted(set(fn_s + off0)):
            if any(b.dominates(f, x) for f in fs):
                continue
            k += 1
            r = b.reach_after(x, avoid=fs)
            bad = [e for e in errs if e in r]
            ctx.check(not bad, '%s:switch-is-atomic#%d' % (b.path, k), where(b, x), 'no error exit between the switch of number / offset and the switch of the handle',
                      'roll-over can fail (%s) after the file number / offset was switched and before the file handle is: the writer keeps the old file under the new number' % (b.loc(bad[0]) if bad else '-'))
    if n == 0:
        ctx.missing('rollover', 'no replacement of RollingWriter.file found')


def create_bodies(ctx):
    return [b for b in ctx.f.bodies.values() if any(e == 'CREATE' for (p, e, cs) in ctx.E.direct_sites(b))]


def setlen_full_sites(ctx, b):
    """SETLEN sites whose length flows from the named const FILE_NUM_BYTES."""
    out = []
    for (p, e, cs) in ctx.E.direct_sites(b):
        if e != 'SETLEN':
            continue
        al = cs.arg_local(1)
        ok = False
        if len(cs.args) > 1:
            a = cs.args[1]
            if (op_const_named(a) or '').endswith('FILE_NUM_BYTES'):
                ok = True
            elif al is not None:
                for o in b.trace_local(al):
                    if o[0] == 'const' and (op_const_named(o[2]) or '').endswith('FILE_NUM_BYTES'):
                        ok = True
        if ok:
            out.append(p)
    return out


@rule('SZ1', ['C02', 'C17'], floor=1, template='must-pass-through+inventory')
def sz1(ctx):
    """New WAL files are exclusive-created, sized to FILE_NUM_BYTES and rewound before use."""
    cbs = create_bodies(ctx)
    if not cbs:
        ctx.missing('create-body', 'no body creates files')
    for b in cbs:
        exits = [e['point'] for e in b.ok_exits()]
        sl = setlen_full_sites(ctx, b)
        creates = [p for (p, e, cs) in ctx.E.direct_sites(b) if e == 'CREATE']
        # from the creating open, no successful return is reached without passing set_len / the rewind (the create may
        # sit in a larger body -- a constructor that creates the first file only when none exists)
        def passed(sites):
            return bool(sites) and all(not any(x in b.reach_after(c, avoid=set(sites)) for x in exits) for c in creates)
        d_len = passed(sl)
        seeks = []
        for (p, e, cs) in ctx.E.direct_sites(b):
            if e == 'SEEK' and cs.name.endswith('::rewind'):
                seeks.append(p)
            if e == 'SEEK' and len(cs.args) > 1:
                al = cs.arg_local(1)
                if al is not None:
                    for o in b.trace_local(al):
                        if o[0] == 'rv' and o[2]['k'] == 'agg' and o[2].get('variant') == 'Start' and o[2]['ops'] and op_const_bits(o[2]['ops'][0]) == 0:
                            seeks.append(p)
        d_seek = passed(seeks)
        ms = ctx.E.openoptions_methods(b)
        bad_m = sorted(ms - {'new', 'create_new', 'write', 'read', 'open'})
        ctx.check(d_len and d_seek, '%s:sized-and-rewound' % b.path, b.span, 'Ok dominated by set_len(FILE_NUM_BYTES) and seek(Start(0))',
                  'a freshly created WAL file can be used without being sized to FILE_NUM_BYTES (zero end-of-log marker missing) or without rewinding (set_len:%s seek:%s)' % (d_len, d_seek))
        ctx.check(not bad_m and 'create_new' in ms, '%s:exclusive' % b.path, b.span, 'OpenOptions: %s' % sorted(ms),
                  'WAL files are not created exclusively (OpenOptions methods %s): an existing file could be truncated or appended to' % sorted(ms), nontrivial=False)
    fc = []
    for b in list(ctx.f.bodies.values()) + ctx.f.poly:
        if b.is_test:
            continue
        for cs in b.calls:
            if re.match(r'^std::fs::File::(create|create_new|create_buffered)', cs.name):
                fc.append(b.loc(cs.point))
    ctx.check(not fc, 'no-file-create', '-', 'File::create* is used nowhere', 'File::create* used at %s (truncates an existing file)' % fc, nontrivial=False)


@rule('SZ2', ['C02', 'C04', 'C06', 'C07'], floor=1, template='sibling-agreement')
def sz2(ctx):
    """Every handle stored into RollingWriter.file at roll-over has been sized to FILE_NUM_BYTES."""
    n = 0
    for b in ctx.f.bodies.values():
        if b.generic_dup():
            continue
        stores = [p for (p, pl, rv) in b.stores if mem_loc(pl) == 'RollingWriter.file']
        if not stores:
            continue
        cut = list(setlen_full_sites(ctx, b))
        cut_edges = []
        from core import result_edges
        for cs in b.calls:
            if cs.node is not None and ctx.E.call_may(cs, 'SETLEN'):
                cb = ctx.f.bodies[cs.node]
                sl = setlen_full_sites(ctx, cb)
                exits = [e['point'] for e in cb.ok_exits()]
                if sl and all(any(cb.dominates(p, e) for p in sl) for e in exits):
                    # the callee sizes the file whenever it SUCCEEDS: what counts is its Ok edge (a `create_file` that
                    # failed with AlreadyExists and fell back to opening the leftover has sized nothing)
                    oks = result_edges(b, cs.dest_local())['ok'] if cs.dest_local() is not None else []
                    if oks:
                        cut_edges += oks
                    else:
                        cut.append(cs.point)
        fl = flow_of(b)
        sizing = set()
        for cs in b.calls:
            if cs.node is not None and ctx.E.call_may(cs, 'SETLEN'):
                cb = ctx.f.bodies[cs.node]
                sl = setlen_full_sites(ctx, cb)
                if sl and all(any(cb.dominates(p, e) for p in sl) for e in [e['point'] for e in cb.ok_exits()]):
                    sizing.add(cs.point)
        for s_ in stores:
            n += 1
            r = b.reach([b.entry], avoid=cut, avoid_edges=cut_edges)
            bad_path = s_ in r
            if bad_path:
                # by provenance: the handle stored comes out of an opening call; follow the VALUE instead of every CFG path
                # (helpers handing the file on inside a Result / a small struct are inlined into one body whose join
                # blocks merge the failure paths of one source with the success path of another): a source that does not
                # size the file itself is sized between the point where its handle is taken out of the call's result and
                # the store
                st_rv = [rv for (p, pl, rv) in b.stores if p == s_][0]
                back = fl.backward(set(fl.op_nodes(st_rv['op'])) if st_rv['k'] == 'use' else set().union(*[set(fl.op_nodes(o)) for o in rvalue_operands(st_rv)]))
                srcs = [cs for cs in b.calls if cs.dest_local() is not None and any(x in back for x in fl.call_result_nodes(cs))
                        and ((cs.node is not None and (ctx.E.call_may(cs, 'OPENRW') or ctx.E.call_may(cs, 'CREATE'))) or any(p_ == cs.point and e_ in ('OPENRW', 'CREATE') for (p_, e_, _c) in ctx.E.direct_sites(b)))]
                if srcs:
                    bad_path = False
                    for cs in srcs:
                        if cs.point in sizing:
                            continue
                        # locals holding the call's result itself, or what `?` (Try::branch) makes of it
                        holders = set(alias_paths(b, cs.dest_local()))
                        for c2 in b.calls:
                            if c2.name.endswith('::branch') and c2.arg_local(0) in holders and c2.dest_local() is not None:
                                holders |= set(alias_paths(b, c2.dest_local()))
                        takes = []
                        for l in range(len(b.j['locals'])):
                            if b.local_ty(l) != 'std::fs::File':
                                continue
                            d = b.single_def(l)
                            if d and d[1] == 'assign' and d[2]['rv']['k'] == 'use' and d[2]['rv']['op']['k'] in ('copy', 'move') and d[2]['rv']['op']['place']['l'] in holders \
                                    and any(e['k'] == 'downcast' for e in d[2]['rv']['op']['place']['p']):
                                takes.append(d[0])
                        if not takes or any(s_ in b.reach_after(tp, avoid=cut) for tp in takes):
                            bad_path = True
            ctx.check(not bad_path, '%s:reuse-arm' % (BW_WRITE if b.name == BW_WRITE else b.path), where(b, s_), 'every path to the handle replacement sizes the new file (set_len(FILE_NUM_BYTES) or create_file)',
                      'a next WAL file can become the writer\'s file without set_len(FILE_NUM_BYTES): a 0-length leftover of a crash during file creation would swallow everything written to it')
    if n == 0:
        ctx.missing('file-store', 'no store to RollingWriter.file found')


@rule('W1', ['C02', 'C15'], floor=4, template='who-may-call')
def w1(ctx):
    """One sequential writer: WRITE only in the block writer, SEEK only in positioning bodies."""
    writers = set()
    seekers = {}
    for b in list(ctx.f.bodies.values()) + ctx.f.poly:
        if b.is_test:
            continue
        for (p, e, cs) in ctx.E.direct_sites(b):
            if e == 'WRITE':
                writers.add((b.path, cs.name))
            if e == 'SEEK':
                seekers.setdefault(b.path, b)
    wp = {w[0] for w in writers}
    ctx.check(wp == {BW_WRITE}, 'write-choke-point', '-', 'the only body writing to a WAL file is %s' % BW_WRITE,
              'WAL file writes outside the block writer: %s' % sorted(wp), nontrivial=False)
    wa = all(n.endswith('::write_all') for (_p, n) in writers)
    ctx.check(wa and bool(writers), 'write_all', '-', 'the block writer uses write_all (no partial writes)', 'the block writer uses a partial write primitive: %s' % sorted(n for (_p, n) in writers), nontrivial=False)
    # SEEK roles
    for path, b in sorted(seekers.items()):
        eff = {e for (p, e, cs) in ctx.E.direct_sites(b)}
        builds_writer = any(st['k'] == 'assign' and st['rv']['k'] == 'agg' and st['rv'].get('agg') == 'adt' and strip_crate(st['rv']['adt']) == RW for bi, blk in enumerate(b.blocks) if b.live[bi] for st in blk['stmts'])
        adds_offset = any(mem_loc(pl) == 'RollingWriter.offset' for (p, pl, rv) in b.stores)
        role = 'create' if 'CREATE' in eff else 'open' if 'OPENRW' in eff else 'reader->writer' if builds_writer else 'forward' if adds_offset else None
        ctx.check(role is not None, 'seek:%s' % path, b.span, 'seek in a positioning body (%s)' % role,
                  'a file seek outside the four positioning bodies (create / open / reader->writer / forward): the write cursor can be moved behind the writer\'s back', nontrivial=False)
    # callers of BlockWrite::write: the frame writer only
    callers = set()
    for b in ctx.f.bodies.values():
        for cs in b.calls:
            if cs.orig.endswith('BlockWrite::write') or cs.name == BW_WRITE:
                callers.add(b.path)
    bad = sorted(c for c in callers if not c.startswith('frame::writer::FrameWriter'))
    ctx.check(not bad and bool(callers), 'block-write-callers', '-', 'BlockWrite::write is called by the frame writer only (%s)' % sorted(callers),
              'BlockWrite::write called outside the frame writer: %s (bytes would bypass framing and accounting)' % bad, nontrivial=False)
    # forward is called only by the frame reader conversion
    fcallers = set()
    for b in ctx.f.bodies.values():
        for cs in b.calls:
            if cs.node is not None:
                cb = ctx.f.bodies[cs.node]
                if cb.path.startswith(RW) and any(e == 'SEEK' for (p, e, c2) in ctx.E.direct_sites(cb)):
                    fcallers.add(b.path)
    badf = sorted(c for c in fcallers if not c.startswith('frame::reader::FrameReader'))
    ctx.check(not badf, 'forward-callers', '-', 'the writer is repositioned only by the reader->writer conversion', 'the writer is repositioned from %s' % badf, nontrivial=False)


@rule('ROLL3', ['C02', 'C07'], floor=1, template='guard-polarity')
def roll3(ctx):
    """A write that would exceed the file size never reaches the file without a roll-over (offset reset)."""
    from vocab import const_comparisons, switch_on_result
    from rules_codec import expr_leaves
    n = 0
    for b in ctx.f.bodies.values():
        if b.generic_dup():
            continue
        ws = [p for (p, e, cs) in ctx.E.direct_sites(b) if e == 'WRITE']
        if not ws:
            continue
        from rules_codec import bound_comparisons
        comps = list(const_comparisons(ctx, b, 'FILE_NUM_BYTES'))
        seen_pts = {c['point'] for c in comps}
        # `len > FILE_NUM_BYTES - offset`: the offset moved to the other side, same operator (ROLL5 has its say on the subtraction)
        comps += [c for c in bound_comparisons(ctx, b, 'FILE_NUM_BYTES') if c['point'] not in seen_pts]
        for c in comps:
            lv = expr_leaves(b, c['x']) + (expr_leaves(b, c['bound']) if c.get('bound') is not None else [])
            if not any(x[0] == 'place' and mem_loc(x[2]) == 'RollingWriter.offset' for x in lv):
                continue
            for (bj, te, fe) in switch_on_result(b, c):
                exceed = te if c['op'] in ('Gt', 'Ge') else fe
                resets = offset_restarts(b)
                # also a call to a helper that resets the offset
                mw = ctx.E.maywrite()
                for cs in b.calls:
                    if cs.node is not None and 'RollingWriter.file' in mw.get(cs.node, set()) and 'RollingWriter.offset' in mw.get(cs.node, set()):
                        resets.append(cs.point)
                n += 1
                r = b.reach([exceed[1]], avoid=resets)
                ctx.check(bool(resets) and not any(w in r for w in ws), '%s:exceeding-write-rolls' % b.path, where(b, c['point']), 'from the `offset + len > FILE_NUM_BYTES` edge the write is only reachable through the roll-over',
                          'a write that does not fit the current WAL file can reach the file without rolling over (inverted or missing test): files would grow beyond their fixed size and the reader, which reads FILE_NUM_BYTES per file, would never see the excess')
    if n == 0:
        ctx.missing('file-full-test', 'no comparison of the write offset with FILE_NUM_BYTES in the block writer')


@rule('ROLL5', ['C10'], floor=1, template='no-overflowing-arithmetic')
def roll5(ctx):
    """The write offset is not subtracted from anything without a test: `RollingReader::into_writer` starts the writer at
    `block_id * BLOCK_NUM_BYTES`, and the block count of the file where replay ended is whatever the directory
    contains (a WAL file longer than FILE_NUM_BYTES is one of the contents open must survive), so
    `FILE_NUM_BYTES - offset` -- equivalent to the addition form for every state the writer itself produces --
    underflows there: open (through the recovery-time GC) or the first write panics in checked builds, and in release
    builds the writer never rolls again. `offset % BLOCK_NUM_BYTES` is bounded and is not concerned."""
    n = 0
    bad = []
    for b in ctx.f.bodies.values():
        if b.generic_dup() or b.is_test or 'rolling::directory::RollingWriter' not in b.path:
            continue
        n += 1
        for bi, blk in enumerate(b.blocks):
            if not b.live[bi]:
                continue
            for si, st in enumerate(blk['stmts']):
                if st['k'] != 'assign' or st['rv']['k'] != 'binop' or not st['rv']['op'].startswith('Sub'):
                    continue
                af = b.affine(st['rv']['b'])
                if af is None or not any(k_ == ('mem', 'RollingWriter.offset') and cf > 0 for (k_, cf) in af[0].items()):
                    continue
                p = b.pstart[bi] + si
                # a dominating comparison that reads the offset is taken as the guard
                guarded = False
                for bj, blk2 in enumerate(b.blocks):
                    if not b.live[bj] or blk2['term']['k'] != 'switch':
                        continue
                    c = b.switch_cond(bj)
                    if not c or c['kind'] != 'bool':
                        continue
                    for o in c['origin']:
                        if o[0] == 'rv' and o[2]['k'] == 'binop' and o[2]['op'] in ('Lt', 'Le', 'Gt', 'Ge'):
                            for side in (o[2]['a'], o[2]['b']):
                                a2 = b.affine(side)
                                if a2 is not None and ('mem', 'RollingWriter.offset') in a2[0]:
                                    e = b.bool_edges(bj)
                                    if e and (b.edge_dominates(e[0], p) or b.edge_dominates(e[1], p)):
                                        guarded = True
                if not guarded:
                    bad.append('%s (%s)' % (b.loc(p), b.path))
    if n == 0:
        ctx.missing('writer', 'no RollingWriter body found')
        return
    ctx.check(not bad, 'no-unguarded-offset-subtraction', 'src/rolling/directory.rs', 'the write offset is never the subtrahend of an unguarded subtraction in the %d bodies of the rolling writer' % n,
              'the write offset is subtracted from a bound without a test (%s): the writer is started at block_id * BLOCK_NUM_BYTES of whatever file replay ended in, an over-long WAL file makes the subtraction underflow -- open or the first write panics' % sorted(set(bad)))
