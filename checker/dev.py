"""dev helper: python3 dev.py <facts.json> RULE [RULE...]  (or ALL)"""
import sys, importlib, glob, os
sys.path.insert(0, os.path.dirname(__file__))
from core import Facts
from engine import Ctx, run_rules, RULES
for m in sorted(glob.glob(os.path.join(os.path.dirname(__file__), 'rules_*.py'))):
    importlib.import_module(os.path.basename(m)[:-3])
f = Facts(sys.argv[1])
ctx = Ctx(f)
ids = sys.argv[2:]
if ids == ['ALL']:
    ids = list(RULES)
out = run_rules(ctx, ids)
for rid, rs in out.items():
    for r in rs:
        flag = {'ok': '  ok ', 'violation': ' VIOL', 'anchor-missing': ' MISS'}[r.status]
        print(flag, r.rule, r.key, '|', r.where, '|', r.msg)
