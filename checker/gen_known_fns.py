#!/usr/bin/env python3
"""Freeze the list of functions of the tree the rule instances were confirmed on (A-INLINE, inline.py).
usage: gen_known_fns.py <facts.json>... > known_fns.json   (production, cfg(test) and bin facts)"""
import json, sys
fns = {}
for p in sys.argv[1:]:
    j = json.load(open(p))
    for f in j['fns']:
        fns.setdefault(f['path'].replace('mrecordlog::', ''), {'sig': f.get('sig'), 'parent': (f.get('parent') or '').replace('mrecordlog::', ''), 'file': (f.get('span') or '').split(':')[0]})
    for b in j['instances'] + j['poly']:
        if not b.get('is_closure'):
            fns.setdefault(b['path'].replace('mrecordlog::', ''), {'sig': None, 'parent': (b.get('parent') or '').replace('mrecordlog::', '')})
adts = {}
for p in sys.argv[1:]:
    j = json.load(open(p))
    for a in j['adts']:
        adts.setdefault(a['path'].replace('mrecordlog::', ''), [{'name': v['name'], 'fields': [[f['name'], f['ty']] for f in v['fields']]} for v in a['variants']])
consts = {}
for p in sys.argv[1:]:
    j = json.load(open(p))
    for c in j['consts']:
        if c.get('value') is not None and '__CALLSITE' not in c['path']:
            consts[c['path'].replace('mrecordlog::', '')] = str(c['value'])
json.dump({'consts': {k: consts[k] for k in sorted(consts)}, 'adts': {k: adts[k] for k in sorted(adts)}, '_comment': 'functions of the tree the rules were confirmed on (path -> signature, parent); any other crate-local fn is an unknown helper and is inlined into its callers before analysis, unless it takes the place of a listed function that disappeared (same parent, same signature = a rename) (checker/inline.py)', 'fns': {k: fns[k] for k in sorted(fns)}}, sys.stdout, indent=0)
