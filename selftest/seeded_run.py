#!/usr/bin/env python3
"""Run every rule against seeded (independently written) bug patches.
usage: seeded_run.py <dir-with-<id>/<X>/patch.diff ...> | (default /verif/seeded)"""
import glob, json, os, sys
from concurrent.futures import ThreadPoolExecutor
HERE = os.path.dirname(os.path.abspath(__file__))
sys.path.insert(0, HERE)
from run import analyse
root = sys.argv[1] if len(sys.argv) > 1 else os.path.join(os.path.dirname(HERE), 'seeded')
patches = sorted(glob.glob(os.path.join(root, '*', '*', 'patch.diff')) + glob.glob(os.path.join(root, '*', 'patch.diff')))
work = os.path.join(os.path.dirname(HERE), '.work')
os.makedirs(work, exist_ok=True)
with ThreadPoolExecutor(max_workers=10) as ex:
    futs = [(p, ex.submit(analyse, p, work)) for p in patches]
    for p, fu in futs:
        r = fu.result()
        rel = os.path.relpath(p, root)
        prop = rel.split('/')[0].split('_')[0]
        mp = os.path.join(os.path.dirname(p), 'meta.json')
        was = None
        if os.path.exists(mp):
            mj = json.load(open(mp))
            prop = mj.get('property', prop)
            was = (mj.get('checker') or {}).get('target_property_fails')
        if r['status'] != 'analysed':
            print('%-22s %s %s' % (rel, r['status'], r.get('log', '')[-200:]))
            continue
        hit = prop in r['props_failed']
        if was and not hit:
            print('REGRESSION %s: target property %s was reported when the seed was imported, not any more' % (rel, prop))
        print('%-22s %-8s props_failed=%s rules=%s missing=%s' % (rel, 'CAUGHT' if hit else ('other' if r['props_failed'] else 'MISSED'), r['props_failed'], sorted(r['violated']), r['missing'][:2]))
        for rid, ks in r['violated'].items():
            for k in ks[:2]:
                print('      %s: %s' % (rid, k[:230]))
