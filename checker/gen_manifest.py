#!/usr/bin/env python3
"""Writes /verif/MANIFEST.json from props.PROPS and the rule registry."""
import glob, importlib, json, os, sys
HERE = os.path.dirname(os.path.abspath(__file__))
VERIF = os.path.dirname(HERE)
sys.path.insert(0, HERE)
from engine import RULES, PROP_RULES
for m in sorted(glob.glob(os.path.join(HERE, 'rules_*.py'))):
    importlib.import_module(os.path.basename(m)[:-3])
import props

CLAIMED = sys.argv[1].split(',') if len(sys.argv) > 1 else sorted(props.PROPS)
NA = {
    'C05': 'Conformance to the sequential queue-map specification is equality of VALUES (positions, counts, payload bytes, range bounds) over all histories; the deciding code is arithmetic and search (truncate_head, position_to_idx, get_range across the ring wrap) and the property as a whole is not a shape of the code. The structural facts nearby are decided under the properties they are necessary conditions of -- gates before effects (C13), forward-only positions (C04), and the few pieces of that arithmetic that read as affine forms: the ring-buffer window, the record window between two metas, next = last + 1, the new start of a truncation (RB1, RB2, MQ4, PAST4, mapped to C01 / C04 / C08) -- and claiming C05 through them would claim behaviour that is not checked: what every call RETURNS for every history. Static analysis (this task\'s technique family) genuinely does not apply.',
}
ids = [json.loads(l)['id'] for l in open(os.path.join(VERIF, 'properties.jsonl'))]
checks = []
na = []
for i in ids:
    if i in props.PROPS and i in CLAIMED and PROP_RULES.get(i):
        s = props.PROPS[i]
        rules = PROP_RULES[i]
        checks.append({
            'property_id': i,
            'quick_cmd': './check %s' % i,
            'thorough_cmd': './check %s --thorough' % i,
            'evidence_file': '/verif/evidence/%s.json' % i,
            'replay_cmd_template': './check %s --explain {path}' % i,
            'engine': 'mrl-static',
            'level_claimed': {
                'category': 'other',
                'text': 'Static analysis of the type-checked program (rustc MIR of /repo\'s current tree, all paths, monomorphic call graph from the public API). Decides NECESSARY structural conditions of the property, not the behaviour itself: ' + s['decides'] + ' Rules: ' + ', '.join(rules) + '. Each rule re-discovers its instances on every run, fails closed below its hand-counted floor, and is exercised by stored mutants of the real crate (thorough tier).',
                'design_ref': s['design_ref'],
            },
            'level_note': 'NOT decided: ' + s['not_decided'] + ' Trusted base: rustc front end/MIR construction, the fact extractor, the python rule engine, the effect table for std/external crates (DESIGN §4.1); unwind edges ignored; every CFG path is considered feasible.',
            'technique': 'static analysis: custom rustc_private MIR driver + rule engine (' + s['technique'] + ')',
        })
    else:
        reason = NA.get(i, 'check under construction in this session: rules for this property are not complete yet (see DESIGN.md §5.9); will be claimed once they are')
        na.append({'property_id': i, 'reason': reason})
m = {
    'version': 1,
    'setup_cmd': 'cd /verif/driver && CARGO_NET_OFFLINE=true cargo build --offline && cd /verif && python3 -m compileall -q checker selftest',
    'hooks': {'guard': 'mrecordlog_verif', 'enable': 'unused: static analysis needs no hooks or instrumentation in /repo (checks read the compiler\'s MIR of the unmodified sources)',
              'baseline_off_cmd': 'cd /repo && cargo test --workspace --no-fail-fast --offline', 'source_commits': [], 'add_only': True},
    'engines': [{'name': 'mrl-static', 'path': '/verif/driver + /verif/checker', 'serves_properties': [c['property_id'] for c in checks],
                 'kind_free_text': 'rustc_private driver (nightly) dumping MIR/ADT/const/format_args facts of /repo as JSON; python3 rule engine: dominance, reachability with cut sets, exit classification, may/must effect summaries with constant specialisation, def-use flow, field write sets, finite-table extraction'}],
    'checks': checks,
    'not_applicable': na,
    'notes': 'All checks are static (family: static analysis). Four genuine defects were repaired in /repo as separate fix: commits (e593aaf, 77febaa, 8a84cd9 found by the rules on the pinned commit; b18ff6e found during the last seeded round, reproduced, and now decided by rule GC13) and are listed as fixed in /verif/known_findings.json. See DESIGN.md.',
}
json.dump(m, open(os.path.join(VERIF, 'MANIFEST.json'), 'w'), indent=1)
print('claimed:', [c['property_id'] for c in checks], 'n/a:', [x['property_id'] for x in na])
