"""Groups REC / FR (§5.3): what the recovery reader may deliver."""
import re

from core import op_local, op_const_bits, op_const_named, place_fields, mem_loc, strip_crate, alias_paths, place_path, ok_bool_edges, result_edges, rvalue_operands
from engine import rule
from flow import flow_of
from vocab import where, const_comparisons, switch_on_result

RR = 'recordlog::reader::RecordReader'
FRD = 'frame::reader::FrameReader'


def stores_to(b, adt_suffix, field):
    out = []
    for (p, pl, rv) in b.stores:
        fl = place_fields(pl)
        if fl and fl[-1][1] == field and fl[-1][0] and fl[-1][0].endswith(adt_suffix):
            out.append((p, pl, rv))
    return out


def const_store_val(rv):
    if rv['k'] == 'use':
        return op_const_bits(rv['op'])
    return None


def rec_bodies(ctx):
    return [b for b in ctx.f.bodies.values() if stores_to(b, 'RecordReader', 'within_record')]


def reads_field_switches(b, loc):
    """bool switches on a read of abstract location loc: yields (block, true_edge, false_edge)"""
    for bi, blk in enumerate(b.blocks):
        if not b.live[bi] or blk['term']['k'] != 'switch':
            continue
        c = b.switch_cond(bi)
        if not c or c['kind'] != 'bool':
            continue
        # the tested value IS the field: every origin of the condition is a read of it (a flag merged from the field and
        # something else -- `match t { Last => pending, _ => self.flag }` -- is not a test of the field)
        org = [o for o in c['origin']]
        if org and all(o[0] == 'place' and mem_loc(o[2]) == loc for o in org):
            e = b.bool_edges(bi)
            if e:
                yield (bi, e[0], e[1])


def calls_on_field(b, callee_re, adt_suffix, field):
    """calls matching callee_re whose first arg borrows (*self).field"""
    out = []
    for cs in b.calls:
        if not re.search(callee_re, cs.name):
            continue
        al = cs.arg_local(0)
        if al is None:
            continue
        for o in b.trace_local(al):
            if o[0] == 'rv' and o[2]['k'] == 'ref':
                fl = place_fields(o[2]['place'])
                if fl and fl[-1][1] == field and (fl[-1][0] or '').endswith(adt_suffix):
                    out.append(cs)
    return out


def _rec_by_protocol(ctx, rid):
    """Decide rule `rid` of the REC family from the record reader's state-machine table (record_protocol) when the
    abstract interpretation is conclusive: every state / outcome has at least one row and every row is definite (a
    state and outcome may have several rows -- the code decides on something else as well, the length of the
    payload say; a clause then has to hold for every one of them). Returns True when decided."""
    prot = record_protocol(ctx)
    if not prot or prot['exhausted']:
        return False
    T = prot['table']
    want = [(w, o) for w in (False, True) for o in ('Ok:Full', 'Ok:First', 'Ok:Middle', 'Ok:Last', 'Err:Corruption', 'Err:NotAvailable', 'Err:IoError')]
    if any(k not in T or not T[k] or any(r_[2] is None or r_[3] == '?' for r_ in T[k]) for k in want):
        return False
    rows = {k: sorted(T[k], key=str) for k in want}      # [(cleared, appended, within_after, result)]
    b = prot['body']
    span = b.span
    def every(keys, pred):
        return all(pred(r_) for k in keys for r_ in rows[k])
    def show(keys):
        return '; '.join('%s/%s -> %s' % (('in' if k[0] else 'out'), k[1].split(':')[1], ' | '.join('clear=%s append=%s within=%s %s' % r_ for r_ in rows[k])) for k in keys)
    if rid == 'REC1':
        keys = [(False, 'Ok:Middle'), (False, 'Ok:Last')]
        ok = every(keys, lambda r_: not r_[1])
        ctx.check(ok, '%s:append' % b.path, span, 'a Middle / Last frame outside an entry is not appended (%s)' % show(keys),
                  'frame payload appended to the entry buffer outside an entry (%s): Middle/Last frames after a damaged frame would be glued to a stale prefix' % show(keys))
    elif rid == 'REC2':
        for v in ('IoError', 'Corruption'):
            keys = [(False, 'Err:%s' % v), (True, 'Err:%s' % v)]
            ok = every(keys, lambda r_: r_[2] == 0 and r_[3] == 'Err(%s)' % v)
            ctx.check(ok, '%s:err-exit:%s' % (b.path, v), span, 'a frame-reader %s leaves the entry and is reported (%s)' % (v, show(keys)),
                      'after a frame-reader %s the record reader stays inside the entry or does not report it (%s): the frames that follow would be glued to the damaged entry' % (v, show(keys)))
    elif rid == 'REC3':
        may = [k for k in want if any(r_[3] == 'Ok(true)' for r_ in rows[k])]
        must = [k for k in want if all(r_[3] == 'Ok(true)' for r_ in rows[k])]
        target = {(False, 'Ok:Full'), (True, 'Ok:Full'), (True, 'Ok:Last')}
        ok = set(may) == target and set(must) == target
        ctx.check(ok, '%s:ok-true' % b.path, span, 'an entry is delivered exactly on Full, or on Last inside an entry',
                  'an entry can be delivered without a closing Last/Full frame or outside an entry, or a closed entry is not delivered (delivered on: %s)' % sorted('%s/%s' % ('in' if k[0] else 'out', k[1]) for k in may))
    elif rid == 'REC4':
        keys = [(False, 'Ok:First'), (True, 'Ok:First'), (False, 'Ok:Full'), (True, 'Ok:Full')]
        k2 = [(False, 'Ok:Middle'), (False, 'Ok:Last')]
        opened_ok = every(keys[:2], lambda r_: r_[2] == 1) and every(k2, lambda r_: r_[2] == 0)
        ctx.check(opened_ok, '%s:start' % b.path, span, 'an entry is opened by First, never by Middle / Last (%s)' % show(keys[:2] + k2),
                  'an entry can be opened by a frame that is not First/Full, or First does not open one (%s)' % show(keys[:2] + k2))
        fresh = every(keys, lambda r_: r_[0] and r_[1])
        ctx.check(fresh, '%s:fresh-buffer' % b.path, span, 'First / Full clear the buffer, then append, whatever the state (%s)' % show(keys),
                  'a First/Full frame does not start from a cleared buffer (%s): bytes of an abandoned entry would prefix the new one' % show(keys))
    elif rid == 'REC6':
        keys = [(w, 'Ok:%s' % v) for w in (False, True) for v in ('Full', 'First', 'Middle', 'Last')]
        ok = every(keys, lambda r_: not r_[3].startswith('Err'))
        ctx.check(ok, '%s:valid-frame-never-errors' % b.path, span, 'no valid frame makes the record reader return an error',
                  'a frame that passed its checksum can make the record reader return an error (%s): the frame is consumed and dropped' % show([k for k in keys if any(r_[3].startswith('Err') for r_ in rows[k])]))
    elif rid == 'REC8':
        keys = [(False, 'Err:NotAvailable'), (True, 'Err:NotAvailable')]
        ok = every(keys, lambda r_: r_[3] == 'Ok(false)')
        ctx.check(ok, '%s:end-of-log' % b.path, span, 'the end of the log is answered Ok(false) in either state (%s)' % show(keys),
                  'the end of the log (NotAvailable) is not answered Ok(false) in every state (%s): replay skips a Corruption and asks again, and the end of the log answers the same thing again -- open would never return; an error instead would make a log with a torn tail unopenable' % show(keys))
    elif rid == 'REC7':
        keys = [(True, 'Ok:Middle'), (False, 'Ok:First'), (True, 'Ok:First')]
        ok = every(keys, lambda r_: r_[2] == 1) and every([(True, 'Ok:Last')], lambda r_: r_[2] == 0 and r_[3] == 'Ok(true)')
        whole = every([(True, 'Ok:Middle'), (True, 'Ok:Last')], lambda r_: r_[1])
        ctx.check(whole, '%s:frames-appended' % b.path, span, 'inside an entry every Middle / Last payload is appended (%s)' % show([(True, 'Ok:Middle'), (True, 'Ok:Last')]),
                  'inside an entry a Middle / Last payload is not appended, or is wiped after being appended (%s): the entry would be delivered with a fragment missing' % show([(True, 'Ok:Middle'), (True, 'Ok:Last')]))
        ctx.check(ok, '%s:ok-arm-clear#1' % b.path, span, 'on a valid frame within_record is cleared only when the entry is delivered (%s)' % show(keys + [(True, 'Ok:Last')]),
                  'a valid frame can leave the entry without delivering it, or an open entry is closed by a Middle/First frame (%s)' % show(keys + [(True, 'Ok:Last')]))
    else:
        return False
    return True


@rule('REC1', ['C02', 'C08', 'C12', 'C18'], floor=1, template='guard-dominates-use')
def rec1(ctx):
    """Frame payloads are appended to the entry buffer only while inside an entry."""
    if _rec_by_protocol(ctx, 'REC1'):
        return
    bs = rec_bodies(ctx)
    if not bs:
        ctx.missing('rec-body', 'no body stores RecordReader.within_record')
    for b in bs:
        apps = calls_on_field(b, r'Vec::<u8>::(extend_from_slice|extend|push|append|resize|insert)', 'RecordReader', 'record_buffer')
        guards = list(reads_field_switches(b, 'RecordReader.within_record'))
        for a in apps:
            ok = any(b.edge_dominates(te, a.point) for (_bi, te, _fe) in guards)
            ctx.check(ok, '%s:append' % b.path, where(b, a.point), 'append to record_buffer dominated by `within_record == true`',
                      'frame payload appended to the entry buffer without checking within_record: Middle/Last frames after a damaged frame would be glued to a stale prefix')


@rule('REC2', ['C02', 'C08', 'C09', 'C12', 'C18'], floor=2, template='must-store-on-error')
def rec2(ctx):
    """Every error exit of the record reader forgets the partially assembled entry."""
    if _rec_by_protocol(ctx, 'REC2'):
        return
    for b in rec_bodies(ctx):
        resets = [p for (p, pl, rv) in stores_to(b, 'RecordReader', 'within_record') if const_store_val(rv) == 0]
        for e in b.exits():
            if e['kind'] not in ('err', 'err_prop'):
                continue
            ok = any(b.dominates(p, e['point']) for p in resets)
            v = e.get('variant') or 'propagated'
            ctx.check(ok, '%s:err-exit:%s' % (b.path, v), where(b, e['point']), 'error exit (%s) dominated by within_record = false' % v,
                      'error exit (%s) does not reset within_record: the next frames would be appended to the abandoned entry and an entry with a hole delivered' % v)


@rule('REC3', ['C02', 'C08', 'C12', 'C18'], floor=1, template='guard-dominates-exit')
def rec3(ctx):
    """An entry is delivered only after a Last frame, while inside an entry."""
    if _rec_by_protocol(ctx, 'REC3'):
        return
    for b in rec_bodies(ctx):
        guards = list(reads_field_switches(b, 'RecordReader.within_record'))
        lasts = list(b.switches_on_call(lambda c: c.path.endswith('FrameType::is_last_frame_of_record')))
        for e in b.exits():
            if e['kind'] == 'ok' and e['ops'] and op_const_bits(e['ops'][0]) == 1:
                g1 = any(b.edge_dominates(te, e['point']) for (_bi, te, _fe) in guards)
                g2 = any(b.edge_dominates(te, e['point']) for (_bi, _c, te, _fe, _cs) in lasts)
                ctx.check(g1 and g2, '%s:ok-true' % b.path, where(b, e['point']), 'Ok(true) dominated by within_record and is_last_frame_of_record',
                          'an entry can be delivered without a closing Last/Full frame or outside an entry (%s)' % ('missing last-frame guard' if g1 else 'missing within_record guard'))


@rule('REC7', ['C07', 'C09', 'C12'], floor=1, template='no-store-on-path')
def rec7(ctx):
    """A valid frame never makes the record reader abandon the entry it is assembling: on the Ok arm of the frame
    reader's result `within_record` is cleared only where the entry is delivered (the store is followed by the
    return, never by another read). Entries whose first frame is empty, or that span many blocks, are assembled
    from frames that carry no other information than their type."""
    if _rec_by_protocol(ctx, 'REC7'):
        return
    n = 0
    for b in rec_bodies(ctx):
        for cs in b.calls:
            dl = cs.dest_local()
            if cs.node is None or dl is None or 'frame::reader::ReadFrameError' not in b.local_ty(dl):
                continue
            re_ = result_edges(b, dl)
            for oe in re_['ok']:
                region = b.reach([oe[1]], avoid=[cs.point])
                k = 0
                for (p, pl, rv) in stores_to(b, 'RecordReader', 'within_record'):
                    if const_store_val(rv) != 0 or p not in region:
                        continue
                    n += 1
                    k += 1
                    again = cs.point in b.reach_after(p)
                    delivered = [e for e in b.exits() if e['point'] in b.reach_after(p)]
                    okd = bool(delivered) and all(e['kind'] == 'ok' and e['ops'] and op_const_bits(e['ops'][0]) == 1 for e in delivered)
                    ctx.check(not again and okd, '%s:ok-arm-clear#%d' % (b.path, k), where(b, p), 'on a valid frame, within_record is cleared only on the way to Ok(true)',
                              'a valid frame can make the reader abandon the entry being assembled (within_record = false on the Ok arm, then the loop goes on): an entry whose frames are all intact would be dropped')
    if n == 0:
        ctx.missing('ok-arm-clear', 'no clearing of within_record on the Ok arm of the frame reader result (the delivery of an entry)')


@rule('REC8', ['C10', 'C07', 'C11'], floor=1, template='no-reach')
def rec8(ctx):
    """The end of the log is not an error and not a corruption, whatever the record reader was doing: NotAvailable
    from the frame reader is answered Ok(false), also in the middle of an entry (a torn tail is the NORMAL state after
    a crash). Replay skips Corruption and reads on; the end of the log is sticky, so a Corruption answered there is
    answered for ever (open never returns), and an error there makes the log unopenable."""
    if _rec_by_protocol(ctx, 'REC8'):
        return
    RFE = 'frame::reader::ReadFrameError'
    for b in rec_bodies(ctx):
        for (bi, pl, adt, edges) in b.discr_switches():
            if adt != RFE or 'NotAvailable' not in edges:
                continue
            r_ = b.reach([edges['NotAvailable'][1]])
            bad = [e for e in b.exits() if e['point'] in r_ and not (e['kind'] == 'ok' and e['ops'] and op_const_bits(e['ops'][0]) == 0)]
            # only exits that the arm itself decides: exits also reachable from the other arms through the loop are theirs
            loop_back = any(cs.point in r_ for cs in b.calls if cs.dest_local() is not None and RFE in b.local_ty(cs.dest_local()))
            if loop_back:
                bad = bad or [{'point': edges['NotAvailable'][1]}]
            ctx.check(not bad, '%s:end-of-log' % b.path, where(b, edges['NotAvailable'][1]), 'the NotAvailable arm only returns Ok(false)',
                      'the end of the log (NotAvailable) is not answered Ok(false) on every path: replay skips a Corruption and asks again, and the end of the log answers the same thing again -- open would never return')


@rule('REC4', ['C02', 'C03', 'C08', 'C12', 'C18'], floor=1, template='must-pass-through')
def rec4(ctx):
    """An entry starts only at a First/Full frame, with a cleared buffer."""
    if _rec_by_protocol(ctx, 'REC4'):
        return
    for b in rec_bodies(ctx):
        sets = [p for (p, pl, rv) in stores_to(b, 'RecordReader', 'within_record') if const_store_val(rv) == 1]
        firsts = list(b.switches_on_call(lambda c: c.path.endswith('FrameType::is_first_frame_of_record')))
        clears = [c.point for c in calls_on_field(b, r'Vec::<u8>::(clear|truncate)$', 'RecordReader', 'record_buffer')]
        apps = calls_on_field(b, r'Vec::<u8>::(extend_from_slice|extend|push|append)', 'RecordReader', 'record_buffer')
        for p in sets:
            g = any(b.edge_dominates(te, p) for (_bi, _c, te, _fe, _cs) in firsts)
            ctx.check(g, '%s:start' % b.path, where(b, p), 'within_record = true only under is_first_frame_of_record',
                      'an entry can be opened by a frame that is not First/Full')
            fresh = True
            for a in apps:
                if a.point in b.reach_after(p, avoid=clears) and not any(b.dominates(c, a.point) and c in b.reach_after(p) for c in clears):
                    fresh = False
                if a.point in b.reach_after(p, avoid=clears):
                    fresh = False
            ctx.check(fresh, '%s:fresh-buffer' % b.path, where(b, p), 'every path from the start of an entry to the first append clears the buffer',
                      'an entry can start without clearing record_buffer: bytes of the previous entry would be delivered in front of it')


@rule('REC5', ['C02', 'C08', 'C12'], floor=1, template='provenance')
def rec5(ctx):
    """read_record returns Some only what deserialize accepted from the assembled buffer."""
    n = 0
    for b in ctx.f.bodies.values():
        if not re.match(r'^std::result::Result<std::option::Option<record::MultiPlexedRecord', b.ret_ty) or not b.path.startswith(RR):
            continue
        n += 1
        fl = flow_of(b)
        # calls whose callee (transitively one level) calls Serializable::deserialize on record_buffer
        def deser_over_buffer(body, depth=0):
            for cs in body.calls:
                if cs.name.endswith('::deserialize') and 'Serializable' in cs.name:
                    al = cs.arg_local(0)
                    back = flow_of(body).backward(set(flow_of(body).op_nodes(cs.args[0])))
                    if ('m', 'RecordReader.record_buffer') in back:
                        return True
                if depth < 2 and cs.node is not None and cs.node in ctx.f.bodies and deser_over_buffer(ctx.f.bodies[cs.node], depth + 1):
                    return True
            return False
        srcs = [cs for cs in b.calls if cs.node is not None and cs.dest_local() is not None and b.local_ty(cs.dest_local()).startswith('std::option::Option<record::MultiPlexedRecord') and deser_over_buffer(ctx.f.bodies[cs.node])]
        some_exits = []
        for e in b.exits():
            if e['kind'] == 'ok' and e['ops']:
                ol = op_local(e['ops'][0])
                if ol is not None and any(o[0] == 'rv' and o[2]['k'] == 'agg' and o[2].get('variant') == 'Some' for o in b.trace_local(ol)):
                    some_exits.append(e)
        if not some_exits:
            ctx.missing('%s:some-exit' % b.path, 'no Ok(Some(..)) exit')
        for e in some_exits:
            t = set()
            for s in srcs:
                t |= fl.forward(set(fl.call_result_nodes(s)))
            prov = bool(srcs) and fl.op_tainted(e['ops'][0], t)
            ctx.check(prov, '%s:provenance' % b.path, where(b, e['point']), 'Ok(Some(x)): x flows from deserialize(record_buffer)',
                      'the record returned by read_record does not come from deserialize over the assembled buffer')
            # None -> Corruption: the option is consumed by ok_or(Corruption) + ?, or by a match whose None arm errs
            none_ok = False
            for s in srcs:
                known = alias_paths(b, s.dest_local())
                for c2 in b.calls:
                    if re.search(r'Option::<.*>::ok_or(::<.*>)?$', c2.name) and c2.arg_local(0) in known:
                        a1 = c2.arg_local(1)
                        corr = a1 is not None and any(o[0] == 'rv' and o[2]['k'] == 'agg' and o[2].get('variant') == 'Corruption' for o in b.trace_local(a1))
                        tried = any(x['kind'] == 'err_prop' and (x.get('call') is c2 or c2 in x.get('calls', ())) for x in b.exits())
                        if corr and tried:
                            none_ok = True
                for (bi, pl, adt, edges) in b.discr_switches():
                    if place_path(known, pl) == [()] and 'None' in edges:
                        r = b.reach([edges['None'][1]])
                        if not any(x['point'] in r for x in some_exits):
                            none_ok = True
            # polarity: Ok(Some) only when the positioning call said a record is available
            avail = []
            for c2 in b.calls:
                if c2.node is not None and c2.dest_local() is not None and b.local_ty(c2.dest_local()).startswith('std::result::Result<bool,'):
                    k1 = alias_paths(b, c2.dest_local())
                    # `match call() { Ok(flag) => .. }`: the flag is read straight from the Ok payload
                    for bj, blk in enumerate(b.blocks):
                        if b.live[bj] and blk['term']['k'] == 'switch':
                            c = b.switch_cond(bj)
                            if c and c['kind'] == 'bool' and any(o[0] == 'place' and place_path(k1, o[2]) == [(('v', 'Ok'), ('f', '0'))] for o in c['origin']):
                                ed = b.bool_edges(bj)
                                if ed:
                                    avail.append(ed[0])
                    for c3 in b.calls:
                        if c3.name.endswith('::branch') and c3.arg_local(0) in k1:
                            k2 = alias_paths(b, c3.dest_local())
                            for bj, blk in enumerate(b.blocks):
                                if b.live[bj] and blk['term']['k'] == 'switch':
                                    c = b.switch_cond(bj)
                                    if c and c['kind'] == 'bool' and any(o[0] == 'place' and place_path(k2, o[2]) == [(('v', 'Continue'), ('f', '0'))] for o in c['origin']):
                                        ed = b.bool_edges(bj)
                                        if ed:
                                            avail.append(ed[0])
            ctx.check(any(b.edge_dominates(te, e['point']) for te in avail), '%s:some-when-available' % b.path, where(b, e['point']), 'Ok(Some) dominated by the true edge of the positioning call (a record is available)',
                      'read_record can return Some(..) when the reader reported that no record is available (inverted test): the end of the log would be read as a record, or records as end of log')
            ctx.check(none_ok, '%s:none-is-corruption' % b.path, where(b, e['point']), 'a buffer deserialize rejects becomes Err(Corruption)',
                      'a buffer rejected by deserialize does not become Err(Corruption)')
    if n == 0:
        ctx.missing('read_record', 'no RecordReader body returning Result<Option<MultiPlexedRecord>, _>')


# ------------------------------------------------------------------------------------------------
# FR

def fr_check_bodies(ctx):
    return [b for b in ctx.f.bodies.values() if b.path.startswith(FRD) and any(cs.path.endswith('Header::check') for cs in b.calls)]


@rule('FR1', ['C08'], floor=1, template='guard-dominates-exit')
def fr1(ctx):
    """No frame is returned without a passed CRC check."""
    bs = fr_check_bodies(ctx)
    if not bs:
        ctx.missing('check-body', 'no FrameReader body calls Header::check')
    for b in bs:
        guards = list(b.switches_on_call(lambda c: c.path.endswith('Header::check')))
        for e in b.exits():
            if e['kind'] == 'ok':
                ok = any(b.edge_dominates(te, e['point']) for (_bi, _c, te, _fe, _cs) in guards)
                ctx.check(ok, '%s:ok-exit' % b.path, where(b, e['point']), 'Ok(frame) dominated by the true edge of Header::check',
                          'a frame can be returned without passing the CRC check: damaged bytes would surface as data')
        # the payload checked is the payload returned
        fl = flow_of(b)
        for (_bi, _c, te, _fe, cs) in guards:
            pl_nodes = set(fl.op_nodes(cs.args[1])) if len(cs.args) > 1 else set()
            back = fl.backward(pl_nodes)
            for e in b.exits():
                if e['kind'] == 'ok' and e['ops']:
                    eback = fl.backward(set(fl.op_nodes(e['ops'][0])))
                    same = bool((back & eback) - {('l', 1)})
                    ctx.check(same, '%s:checked-is-returned' % b.path, where(b, e['point']), 'the slice handed to Header::check and the slice returned share their origin',
                              'the payload returned is not the payload that was checksummed')


@rule('FR2', ['C08', 'C12'], floor=3, template='sibling-agreement')
def fr2(ctx):
    """Writer and reader compute the same checksum: over the frame-type byte and the payload."""
    fp = ctx.fn('frame::header::Header::for_payload')
    ck = ctx.fn('frame::header::Header::check')
    if not fp or not ck:
        ctx.missing('header-fns', 'Header::for_payload / Header::check not found')
        return
    fp, ck = fp[0], ck[0]

    def uses_hasher(cb, depth=0):
        if any('crc32fast::Hasher' in c.name for c in cb.calls):
            return True
        return depth < 2 and any(c.node is not None and c.node in ctx.f.bodies and uses_hasher(ctx.f.bodies[c.node], depth + 1) for c in cb.calls)
    # the checksum is analysed as ONE computation inside the writer and inside the reader, whether or not
    # the crate factors it into a helper (A-INLINE on demand)
    sides = {}
    for (b0, side) in ((fp, 'writer'), (ck, 'reader')):
        b = ctx.f.inlined(b0, uses_hasher, 'crc')
        fl = flow_of(b)
        ups = [c for c in b.calls if c.name.endswith('crc32fast::Hasher::update')]
        fin = [c for c in b.calls if c.name.endswith('crc32fast::Hasher::finalize')]
        payload_param = [i for i in range(1, b0.arg_count + 1) if b0.local_ty(i) == '&[u8]']
        t_up, d_up = [], []
        for u in ups:
            back = fl.backward(set(fl.op_nodes(u.args[1]))) if len(u.args) > 1 else set()
            from_payload = any(('l', i) in back for i in payload_param)
            if side == 'writer':
                from_type = any(('l', i) in back for i in range(1, b0.arg_count + 1) if i not in payload_param)
            else:
                from_type = ('m', 'Header.frame_type') in back
            if from_payload and not from_type:
                d_up.append(u)
            elif from_type and not from_payload:
                t_up.append(u)
        okf = len(fin) == 1
        cover = bool(t_up) and bool(d_up) and okf and all(b.dominates(u.point, fin[0].point) for u in (t_up[:1] + d_up[:1])) and len(ups) == len(t_up) + len(d_up)
        ctx.check(cover, 'args:%s' % side, where(b, (fin or ups or b.calls)[0].point) if (fin or ups or b.calls) else b0.span, '%s: the checksum covers the frame-type byte and the payload on every path' % side,
                  '%s: the checksum no longer covers both the frame-type byte and the payload on every path (type updates: %d, payload updates: %d, other updates: %d, finalize: %d)' % (side, len(t_up), len(d_up), len(ups) - len(t_up) - len(d_up), len(fin)))
        order = None
        if t_up and d_up:
            order = 'type-first' if b.dominates(t_up[0].point, d_up[0].point) else ('payload-first' if b.dominates(d_up[0].point, t_up[0].point) else 'unordered')
        # width of what is hashed for the type: the array handed to update()
        tw = None
        if t_up:
            al = t_up[0].arg_local(1)
            for o in (b.trace_local(al) if al is not None else []):
                if o[0] == 'rv' and o[2]['k'] == 'ref':
                    tw = b.local_ty(o[2]['place']['l'])
            if tw is None and al is not None:
                tw = b.local_ty(al)
        sides[side] = (b, fl, fin, order, tw, cover)
    if not all(sides[x][5] for x in sides):
        return
    same = sides['writer'][3] == sides['reader'][3] and sides['writer'][3] in ('type-first', 'payload-first') and sides['writer'][4] == sides['reader'][4]
    ctx.check(same, 'same-fn', fp.span, 'writer and reader hash the same things in the same order (%s, type as %s)' % (sides['writer'][3], sides['writer'][4]),
              'writer and reader no longer compute the same checksum: order %s vs %s, type hashed as %s vs %s' % (sides['writer'][3], sides['reader'][3], sides['writer'][4], sides['reader'][4]), nontrivial=False)
    # reader compares with the stored checksum by Eq
    (bk, fl, fin, _o, _t, _c) = sides['reader']
    eq_ok = False
    t = fl.forward(set(fl.call_result_nodes(fin[0])))
    for (p, kind, data) in bk.defs.get(0, []):
        if kind == 'assign' and data['rv']['k'] == 'binop' and data['rv']['op'] == 'Eq':
            a1, b1 = data['rv']['a'], data['rv']['b']
            other = b1 if fl.op_tainted(a1, t) else (a1 if fl.op_tainted(b1, t) else None)
            if other is not None and ('m', 'Header.checksum') in fl.backward(set(fl.op_nodes(other))):
                eq_ok = True
    ctx.check(eq_ok, 'check-eq', ck.span, 'check() is `crc(payload, type) == self.checksum`', 'Header::check is no longer an equality between the recomputed and the stored checksum')
    # writer stores the crc into the checksum field
    (bw, flw, finw, _o, _t, _c) = sides['writer']
    tw_ = flw.forward(set(flw.call_result_nodes(finw[0])))
    st_ok = False
    for (p, kind, data) in bw.defs.get(0, []):
        if kind == 'assign' and data['rv']['k'] == 'agg' and data['rv'].get('agg') == 'adt':
            for nm, o in zip(data['rv']['fields'], data['rv']['ops']):
                if nm == 'checksum' and flw.op_tainted(o, tw_):
                    st_ok = True
    ctx.check(st_ok, 'writer-stores', fp.span, 'for_payload stores the checksum into Header.checksum', 'Header::for_payload does not store the computed checksum')


@rule('FR3', ['C08'], floor=2, template='guard-dominates-exit')
def fr3(ctx):
    """A header is used only if it deserialised, and it deserialises only with a valid frame type."""
    hd = ctx.fn('frame::header::Header::deserialize')
    if not hd:
        ctx.missing('deserialize', 'Header::deserialize not found')
        return
    hd = hd[0]
    fts = [cs for cs in hd.calls if cs.path.endswith('FrameType::from_u8')]
    some_exits = [e for e in hd.exits() if e['kind'] == 'some']
    ok = False
    for cs in fts:
        known = alias_paths(hd, cs.dest_local())
        # consumed by `?` on Option: branch -> Continue edge
        for c2 in hd.calls:
            if c2.name.endswith('::branch') and c2.arg_local(0) in known:
                k2 = alias_paths(hd, c2.dest_local())
                for (bi, pl, adt, edges) in hd.discr_switches():
                    if place_path(k2, pl) == [()] and 'Continue' in edges:
                        if all(hd.edge_dominates(edges['Continue'], e['point']) for e in some_exits) and some_exits:
                            ok = True
        for (bi, pl, adt, edges) in hd.discr_switches():
            if place_path(known, pl) == [()] and 'Some' in edges:
                if all(hd.edge_dominates(edges['Some'], e['point']) for e in some_exits) and some_exits:
                    ok = True
    ctx.check(ok, 'deserialize:valid-type', hd.span, 'Header::deserialize returns Some only under the Some edge of FrameType::from_u8',
              'Header::deserialize can return a header whose frame-type byte was not validated')
    # users: Ok(header) exits flow from the Some edge
    n = 0
    for b in ctx.f.bodies.values():
        if not b.path.startswith(FRD):
            continue
        for cs in b.calls:
            if cs.node == hd.id:
                n += 1
                known = alias_paths(b, cs.dest_local())
                some_edges = []
                for (bi, pl, adt, edges) in b.discr_switches():
                    if place_path(known, pl) == [()] and 'Some' in edges:
                        some_edges.append(edges['Some'])
                for e in b.exits():
                    if e['kind'] == 'ok':
                        g = any(b.edge_dominates(se, e['point']) for se in some_edges)
                        ctx.check(g, '%s:ok-exit' % b.path, where(b, e['point']), 'Ok(header) dominated by the Some edge of Header::deserialize',
                                  'a header can be returned although Header::deserialize rejected it')
                # ... and a header that does NOT decode condemns the rest of the block: from the None edge no return is reached
                # without `block_corrupted = true`. Its length field is as untrustworthy as its type byte: a reader that
                # "skips just that frame" by the length of a garbage header resumes parsing inside payload bytes, and
                # whatever there looks like a frame (a payload that embeds WAL bytes) is replayed as one.
                none_edges = []
                for (bi, pl, adt, edges) in b.discr_switches():
                    if place_path(known, pl) == [()] and 'None' in edges:
                        none_edges.append(edges['None'])
                quar = [p for (p, pl, rv) in stores_to(b, 'FrameReader', 'block_corrupted') if const_store_val(rv) == 1]
                rets = b.return_points()
                for k_, ne in enumerate(none_edges):
                    leak = ne[1] not in quar and any(r_ in b.reach([ne[1]], avoid=quar) for r_ in rets)
                    ctx.check(not leak, '%s:undecodable-header-quarantines#%d' % (b.path, k_ + 1), where(b, ne[1]), 'a header that does not decode quarantines the block before the call returns',
                              'a header that does not decode no longer condemns the rest of its block (no block_corrupted = true on the way out): the reader goes on by a length it cannot trust and parses payload bytes as frames')
    if n == 0:
        ctx.missing('deserialize-user', 'no FrameReader body calls Header::deserialize')


@rule('FR3z', ['C08', 'C07', 'C01'], floor=2, template='guard-dominates-exit')
def fr3z(ctx):
    """The end of the log is an ALL-zero header, nothing narrower and nothing else: NotAvailable is answered only
    when all HEADER_LEN bytes are zero (a written frame whose checksum happens to be 0 is still a frame: C07/C01),
    and a header is decoded only when they are not (C08)."""
    hd = ctx.fn('frame::header::Header::deserialize')
    if not hd:
        ctx.missing('deserialize', 'Header::deserialize not found')
        return
    hd = hd[0]
    # an all-zero header means end of log: NotAvailable only under the true edge of `header_bytes == [0; HEADER_LEN]`
    for b in ctx.f.bodies.values():
        if not b.path.startswith(FRD) or not any(cs.node == hd.id for cs in b.calls):
            continue
        zeros = []
        hl = ctx.f.const_value('frame::header::HEADER_LEN')
        for (zbi, zc, zte, zfe, zcs) in b.switches_on_call(lambda c: 'PartialEq<[u8;' in c.name or 'equality::<impl' in c.name):
            # normalise to the edge on which the bytes ARE all zero
            if zcs.name.endswith('::ne'):
                zte, zfe = zfe, zte
            # the comparison must cover the whole header: `[u8; N]` with N = HEADER_LEN (a header whose first bytes
            # happen to be zero -- a zero checksum -- is not the end of the log)
            mm = re.search(r'\[u8; (\d+)\]', zcs.name)
            if mm and hl is not None and int(mm.group(1)) != hl:
                continue
            zeros.append((zbi, zc, zte, zfe, zcs))
        # `bytes.iter().all(|b| *b == 0)` / `!bytes.iter().any(|b| *b != 0)`
        def byte_pred(cb_):
            """'eq0' / 'ne0' when closure body cb_ returns `<its argument> == 0` / `!= 0`"""
            for (p_, kind, data) in cb_.defs.get(0, []):
                if kind == 'assign' and data['rv']['k'] == 'binop' and data['rv']['op'] in ('Eq', 'Ne'):
                    a_, b_ = data['rv']['a'], data['rv']['b']
                    if op_const_bits(b_) == 0 or op_const_bits(a_) == 0:
                        return 'eq0' if data['rv']['op'] == 'Eq' else 'ne0'
            return None
        for (zbi, zc, zte, zfe, zcs) in b.switches_on_call(lambda c: re.search(r'Iterator>::(all|any)(::<.*>)?$', c.name) is not None and 'u8' in c.name):
            blk_ = b.points[zcs.point][0]
            for (p_, fj) in b.fn_values:
                if b.pstart[blk_] <= p_ <= zcs.point and fj.get('node') in ctx.f.bodies:
                    bp = byte_pred(ctx.f.bodies[fj['node']])
                    is_all = re.search(r'Iterator>::all', zcs.name) is not None
                    if bp == 'eq0' and is_all:
                        zeros.append((zbi, zc, zte, zfe, zcs))
                    elif bp == 'ne0' and not is_all:
                        zeros.append((zbi, zc, zfe, zte, zcs))
        na = [e for e in b.exits() if e['kind'] == 'err' and e.get('variant') == 'NotAvailable']
        for e in na:
            ok = any(b.edge_dominates(te, e['point']) for (_bi, _c, te, _fe, _cs) in zeros)
            ctx.check(ok, '%s:end-of-log-is-zero-header' % b.path, where(b, e['point']), 'NotAvailable only when the header bytes are all zero',
                      'the end-of-log signal (NotAvailable) is not tied to an all-zero header: valid frames could be taken for the end of the log or vice versa')
        dcalls = [cs for cs in b.calls if cs.node == hd.id]
        for cs in dcalls:
            okz = any(b.edge_dominates(fe, cs.point) for (_bi, _c, _te, fe, _cs) in zeros)
            ctx.check(okz, '%s:decode-only-nonzero' % b.path, where(b, cs.point), 'a header is decoded only when its bytes are not all zero',
                      'a header is decoded on the all-zero edge')


def progress_points(ctx, b):
    """FR5 progress stores in b: cursor = cursor + x, or block_corrupted = true."""
    out = []
    fl = None
    for (p, pl, rv) in stores_to(b, 'FrameReader', 'block_corrupted'):
        if const_store_val(rv) == 1:
            out.append(p)
    for (p, pl, rv) in stores_to(b, 'FrameReader', 'cursor'):
        if rv['k'] != 'use':
            continue
        fl = fl or flow_of(b)
        back = fl.backward(set(fl.op_nodes(rv['op'])))
        if ('m', 'FrameReader.cursor') not in back:
            continue
        # an Add on the way (directly, through named locals `let start = cursor + N; cursor = start`, through the
        # `.0` of a checked add)
        ol = rv['op']['place']['l'] if rv['op']['k'] in ('copy', 'move') else None
        if ol is None:
            continue
        cands = {ol}
        for o in b.trace_local(ol):
            if o[0] == 'place' and len(o[2]['p']) == 1 and o[2]['p'][0]['k'] == 'field':
                cands.add(o[2]['l'])
            if o[0] == 'rv' and o[2]['k'] == 'binop' and o[2]['op'].startswith('Add'):
                out.append(p)
        for c_ in cands:
            for (dp, kind, data) in b.defs.get(c_, []):
                if kind == 'assign' and data['rv']['k'] == 'binop' and data['rv']['op'].startswith('Add'):
                    out.append(p)
    return out


@rule('FR5', ['C10'], floor=4, template='loop-progress')
def fr5(ctx):
    """Every Corruption and every returned frame is preceded by reader progress."""
    n = 0
    from rules_open import corruption_sites
    for b in ctx.f.bodies.values():
        if not b.path.startswith(FRD):
            continue
        prog = progress_points(ctx, b)
        # every return of Err(Corruption): asked at the point where the value is stored into the return slot (a value
        # built early -- `ok_or(Corruption)` evaluates its argument first -- and returned after the quarantine is fine);
        # constructions that never reach the return slot directly (handed to a callee, stored) are asked where built
        ret_sites = sorted({e['ret_point'] for e in b.exits() if e['kind'] == 'err' and e.get('variant') == 'Corruption' and e.get('ret_point') is not None})
        built = corruption_sites(b)
        returned_built = {e['point'] for e in b.exits() if e['kind'] == 'err' and e.get('variant') == 'Corruption'}
        targets = [('corruption', p) for p in ret_sites] + [('corruption', p) for p in built if not returned_built and p not in ret_sites]
        if not ret_sites:
            targets = [('corruption', p) for p in built]
        if any(cs.path.endswith('Header::check') for cs in b.calls):
            targets += [('ok-exit', e['point']) for e in b.exits() if e['kind'] == 'ok']
        seen = {}
        for (what, t) in targets:
            n += 1
            ok = any(b.dominates(p, t) for p in prog) or (bool(prog) and t not in b.reach([b.entry], avoid=set(prog)))
            k = '%s:%s' % (b.path, what)
            seen[k] = seen.get(k, 0) + 1
            ctx.check(ok, '%s#%d' % (k, seen[k]), where(b, t), '%s dominated by a cursor advance or block quarantine' % what,
                      '%s without reader progress (no cursor advance, no block_corrupted = true before it): open would re-read the same bytes forever' % what)
    if n == 0:
        ctx.missing('targets', 'no Corruption construction / Ok exit found in FrameReader bodies')


@rule('FR6', ['C09', 'C12', 'C08'], floor=1, template='no-store-on-path')
def fr6(ctx):
    """A CRC failure costs one frame: it does not quarantine the block, and it is reported as Corruption. Answering a checksum failure with the end-of-log signal instead (a 'torn write') also puts the writer in front of valid older frames, which later complete a batch cut by a crash (C12, C08)."""
    for b in fr_check_bodies(ctx):
        q = [p for (p, pl, rv) in stores_to(b, 'FrameReader', 'block_corrupted') if const_store_val(rv) != 0]
        for (_bi, _c, te, fe, cs) in b.switches_on_call(lambda c: c.path.endswith('Header::check')):
            r = b.reach([fe[1]])
            bad = [p for p in q if p in r]
            ctx.check(not bad, '%s:no-quarantine' % b.path, where(b, cs.point), 'no store to block_corrupted on the CRC-failure path',
                      'a CRC failure quarantines the whole block: every later entry of the block is lost, not just the damaged one')
            exits = [e for e in b.exits() if e['point'] in r]
            allc = bool(exits) and all(e['kind'] == 'err' and e.get('variant') == 'Corruption' for e in exits)
            ctx.check(allc, '%s:is-corruption' % b.path, where(b, cs.point), 'the CRC-failure path returns Err(Corruption)',
                      'the CRC-failure path does not (only) return Err(Corruption)')
            # cursor already advanced past the frame
            adv = [p for p in progress_points(ctx, b)]
            ctx.check(any(b.dominates(p, cs.point) for p in adv), '%s:advanced' % b.path, where(b, cs.point), 'the cursor is advanced past the frame before the CRC is checked',
                      'the cursor is not advanced before the CRC check: a damaged frame would be re-read')


@rule('FR9', ['C09'], floor=2, template='guard-dominates-use')
def fr9(ctx):
    """A block is quarantined only for the two reasons that make the rest of it unreadable: its next header does not
    decode, or the frame it announces does not fit the block.  Any other reason (a frame that 'should not be here',
    a failed payload check) would cost the intact entries that share the block."""
    from vocab import const_comparisons, switch_on_result
    from rules_codec import expr_leaves
    n = 0
    for b in ctx.f.bodies.values():
        if b.generic_dup() or not b.path.startswith(FRD):
            continue
        q = [p for (p, pl, rv) in stores_to(b, 'FrameReader', 'block_corrupted') if const_store_val(rv) == 1]
        if not q:
            continue
        good = []
        for cs in b.calls:
            if cs.path.endswith('Header::deserialize') and cs.dest_local() is not None:
                re_ = result_edges(b, cs.dest_local())
                good += re_['err']
        from rules_codec import bound_comparisons
        for c in bound_comparisons(ctx, b, 'BLOCK_NUM_BYTES'):
            lv = expr_leaves(b, c['x'])
            if not any(x[0] == 'call' and x[1].node is not None and ctx.f.bodies[x[1].node].path.startswith('frame::header::Header::') for x in lv):
                continue
            for (bj, te, fe) in switch_on_result(b, c):
                good.append(te if c['op'] in ('Gt', 'Ge') else fe)
        k = 0
        for p in q:
            n += 1
            k += 1
            ok = any(b.edge_dominates(e, p) for e in good)
            ctx.check(ok, '%s:quarantine#%d' % (b.path, k), where(b, p), 'block quarantined on an undecodable header or a frame overflowing the block',
                      'a block is quarantined for another reason than an undecodable header or an overflowing frame: the intact entries in the rest of the block would be lost with it')
    if n == 0:
        ctx.missing('quarantine', 'no `block_corrupted = true` store found in the frame reader')
    # ... and "does not decode" means one thing only: the frame-type byte is not a frame type. A header rejected for
    # any other reason (a checksum or a length that "looks wrong") is damage confined to checksum / length bytes
    # that would take the rest of the block with it.
    hd = ctx.fn('frame::header::Header::deserialize')
    if hd:
        hd = hd[0]
        fts = [cs for cs in hd.calls if cs.path.endswith('FrameType::from_u8')]
        none_edges = []
        for cs in fts:
            if cs.dest_local() is not None:
                none_edges += result_edges(hd, cs.dest_local())['err']
        k = 0
        for e in hd.exits():
            if e['kind'] == 'some':
                continue
            k += 1
            if e['kind'] == 'err_prop':
                ok = e.get('call') is not None and any(e.get('call') is cs for cs in fts)
            else:
                ok = any(hd.edge_dominates(ne, e['point']) for ne in none_edges)
            ctx.check(ok, 'deserialize:none-only-for-invalid-type#%d' % k, where(hd, e['point']), 'a header is rejected only for an invalid frame-type byte',
                      'Header::deserialize rejects a header for another reason than an invalid frame-type byte: damage confined to the checksum / length bytes of one frame would quarantine the rest of its block')


@rule('FR7', ['C10', 'C01', 'C02', 'C09'], floor=3, template='control-dependence')
def fr7(ctx):
    """A quarantined or exhausted block is left before the next header is read."""
    n = 0
    for b in ctx.f.bodies.values():
        if not b.path.startswith(FRD):
            continue
        nbs = [cs for cs in b.calls if cs.orig.endswith('BlockRead::next_block') or cs.path.endswith('::next_block')]
        if not nbs:
            continue
        n += 1
        nb = nbs[0]
        fl = flow_of(b)
        ok_exits = [e for e in b.exits() if e['kind'] == 'ok']
        # early exits (not through next_block) must cross: false edge of read(block_corrupted) and false edge of Lt(v, HEADER_LEN)
        bc = list(reads_field_switches(b, 'FrameReader.block_corrupted'))
        comps = []
        for cmpx in const_comparisons(ctx, b, 'HEADER_LEN'):
            back = fl.backward(set(fl.op_nodes(cmpx['x'])))
            from_cursor = ('m', 'FrameReader.cursor') in back or any(c.node is not None and ('m', 'FrameReader.cursor') in flow_of(ctx.f.bodies[c.node]).backward({('l', 0)}) and any(nn in back for nn in fl.call_result_nodes(c)) for c in b.calls)
            if from_cursor:
                comps.append(cmpx)
        early = [e for e in ok_exits if e['point'] in b.reach([b.entry], avoid=[nb.point])]
        for e in early:
            # must not be reachable when block_corrupted is true: with A-THREAD the true edge of the
            # block_corrupted read cannot reach the early exit without next_block
            g1 = False
            for (bi, te, fe) in bc:
                r = b.reach([te[1]], avoid=[nb.point])
                if e['point'] not in r:
                    g1 = True
            # and must not be reachable when fewer than HEADER_LEN bytes remain
            g2 = False
            for cmpx in comps:
                for (bj, te, fe) in switch_on_result(b, cmpx):
                    if cmpx['op'] == 'Lt':
                        skip_edge, other = te, fe
                    elif cmpx['op'] == 'Ge':
                        skip_edge, other = fe, te
                    else:
                        continue
                    # when `remaining < HEADER_LEN` holds the early exit must be unreachable without next_block:
                    # (a) from the skip edge of the switch, and (b) from the comparison itself when the
                    # other edge of the (possibly merged, A-THREAD) switch is removed
                    r = b.reach([skip_edge[1]], avoid=[nb.point])
                    r_all = b.reach([cmpx['point']], avoid=[nb.point], avoid_edges=[other])
                    if e['point'] not in r and e['point'] not in r_all:
                        g2 = True
            ctx.check(g1, '%s:corrupted-block-left' % b.path, where(b, e['point']), 'the early return is unreachable while block_corrupted is set',
                      'the reader can keep reading a block it has quarantined (block_corrupted ignored): open re-reads the same invalid header forever')
            ctx.check(g2, '%s:short-tail-left' % b.path, where(b, e['point']), 'the early return is unreachable when fewer than HEADER_LEN bytes remain in the block',
                      'the reader can try to read a header from a block tail shorter than HEADER_LEN')
        # after next_block true: cursor = 0 and block_corrupted = false dominate the Ok exit; false edge -> only NotAvailable
        tedges = ok_bool_edges(b, nb.dest_local()) if nb.dest_local() is not None else []
        resets_c = [p for (p, pl, rv) in stores_to(b, 'FrameReader', 'cursor') if const_store_val(rv) == 0]
        resets_b = [p for (p, pl, rv) in stores_to(b, 'FrameReader', 'block_corrupted') if const_store_val(rv) == 0]
        okk = False
        for (te, fe) in tedges:
            late = [e for e in ok_exits if e['point'] in b.reach([te[1]])]
            # every path from the `next_block() == true` edge to a successful return passes both resets
            def passes(resets):
                # the edge may land on the reset itself (reach() keeps its sources even when they are in `avoid`)
                return te[1] in resets or not any(e['point'] in b.reach([te[1]], avoid=resets) for e in late)
            c_ok = bool(late) and bool(resets_c) and bool(resets_b) and passes(resets_c) and passes(resets_b)
            f_exits = [e for e in b.exits() if e['point'] in b.reach([fe[1]])]
            f_ok = bool(f_exits) and all(e['kind'] == 'err' and e.get('variant') == 'NotAvailable' for e in f_exits)
            if c_ok and f_ok:
                okk = True
        ctx.check(okk, '%s:after-next-block' % b.path, where(b, nb.point), 'after next_block() == true the cursor and the quarantine flag are reset; false leads only to NotAvailable',
                  'after moving to the next block the reader state is not reset (cursor = 0, block_corrupted = false), or end-of-input is not reported as NotAvailable')
    if n == 0:
        ctx.missing('next_block-body', 'no FrameReader body calls BlockRead::next_block')


    # the header peek itself (`block[cursor..][..HEADER_LEN]`) is only safe right after that room check: every call of the
    # body that cuts a header out of the block is preceded, on every path from the function entry and from every
    # advance of the cursor, by the call that leaves an exhausted block -- a second peek "to see what comes next" after a
    # frame was consumed slices past the end of the block whenever that frame was the last of its block
    rdr = [x for x in ctx.f.bodies.values() if not x.generic_dup() and x.path.startswith('frame::reader::FrameReader')]
    room = {x.id for x in rdr if any(cs.orig.endswith('BlockRead::next_block') or cs.path.endswith('::next_block') for cs in x.calls)}
    peek = {x.id for x in rdr if 'frame::header::Header' in x.ret_ty and any((op_const_named(o) or '').endswith('HEADER_LEN') for blk in x.blocks for st in blk['stmts'] if st['k'] == 'assign' for o in rvalue_operands(st['rv']))}
    # a peek body that makes the room check itself before it cuts (the two merged into one function) needs no guard outside
    for x in rdr:
        if x.id in peek:
            cuts = [cs.point for cs in x.calls if re.search(r'ops::Index(Mut)?<', cs.name)]
            rms = [cs.point for cs in x.calls if cs.node in room]
            if cuts and rms and all(any(x.dominates(r_, c_) for r_ in rms) for c_ in cuts):
                peek = peek - {x.id}
    for b in rdr:
        pk = [cs for cs in b.calls if cs.node in peek]
        if not pk or b.id in peek:
            continue
        rm = [cs.point for cs in b.calls if cs.node in room]
        adv = [p for (p, pl, rv) in b.stores if mem_loc(pl) == 'FrameReader.cursor']
        for k, cs in enumerate(pk):
            n += 1
            unguarded = cs.point in b.reach([b.entry], avoid=rm) or any(cs.point in b.reach_after(a, avoid=rm) for a in adv)
            ctx.check(not unguarded, '%s:header-peek-after-room-check#%d' % (b.path, k + 1), where(b, cs.point), 'the header is read only right after the block-room check',
                      'a header is cut out of the block without the room check since the cursor last moved: when the frame just consumed was the last of its block the slice runs past the end of the block and open panics')

@rule('FR8', ['C08', 'C02', 'C12', 'C18'], floor=2, template='no-reach')
def fr8(ctx):
    """Quarantining a block is always reported: after `block_corrupted = true` the call cannot return a
    frame/header, so the record reader learns that frames were skipped and abandons the open entry."""
    n = 0
    for b in ctx.f.bodies.values():
        if not b.path.startswith(FRD) or b.generic_dup():
            continue
        seen = 0
        for (p, pl, rv) in stores_to(b, 'FrameReader', 'block_corrupted'):
            if const_store_val(rv) != 1:
                continue
            n += 1
            seen += 1
            r = b.reach_after(p)
            # (asked where the value is stored into the return slot: a Corruption value built before the quarantine and
            # returned after it is a report all the same)
            oks = [e for e in b.exits() if e['kind'] in ('ok', 'forward') and e.get('ret_point', e['point']) in r]
            errs = [e for e in b.exits() if e.get('ret_point', e['point']) in r and e['kind'] == 'err']
            all_corr = bool(errs) and all(e.get('variant') == 'Corruption' for e in errs)
            ctx.check(not oks and all_corr, '%s:quarantine-reported#%d' % (b.path, seen), where(b, p), 'block quarantine is followed only by Err(Corruption)',
                      'after quarantining a block the frame reader can still return successfully (%s): frames are skipped silently and a multi-frame entry open in the record reader gets spliced with unrelated frames' % (b.loc(oks[0]['point']) if oks else 'no Corruption exit'))
    if n == 0:
        ctx.missing('quarantine-stores', 'no `block_corrupted = true` store found')


@rule('FR5b', ['C07', 'C08', 'C02'], floor=1, template='must-store')
def fr5b(ctx):
    """A returned frame has been consumed entirely: the cursor advanced by HEADER_LEN and by the payload length."""
    n = 0
    from core import op_const_named
    for b in fr_check_bodies(ctx):
        fl = flow_of(b)
        hdr_adv, len_adv = [], []
        for (p, pl, rv) in stores_to(b, 'FrameReader', 'cursor'):
            if rv['k'] != 'use' or rv['op']['k'] not in ('copy', 'move'):
                continue
            ol = rv['op']['place']['l']
            # through named locals, helper results and `?`: `let end = cursor + len; ..; cursor = end`,
            # `let end = self.consume_header(..)?` with the helper in place (trace_local folds the Ok(..) / Continue(..) wrappers)
            adds = [(o[1], o[2]) for o in b.trace_local(ol) if o[0] == 'rv' and o[2]['k'] == 'binop' and o[2]['op'].startswith('Add')]
            adds += [(dp, data['rv']) for (dp, kind, data) in b.defs.get(ol, []) if kind == 'assign' and data['rv']['k'] == 'binop' and data['rv']['op'].startswith('Add')]
            # `(checked add).0`
            for o in b.trace_local(ol):
                if o[0] == 'place' and len(o[2]['p']) == 1 and o[2]['p'][0]['k'] == 'field' and o[2]['p'][0]['i'] == 0:
                    adds += [(dp, data['rv']) for (dp, kind, data) in b.defs.get(o[2]['l'], []) if kind == 'assign' and data['rv']['k'] == 'binop' and data['rv']['op'].startswith('Add')]
            for (dp, brv) in adds:
                a, bb = brv['a'], brv['b']
                if (op_const_named(a) or '').endswith('HEADER_LEN') or (op_const_named(bb) or '').endswith('HEADER_LEN'):
                    hdr_adv.append(p)
                else:
                    t_len = set()
                    for cs in b.calls:
                        if cs.node is not None and ctx.f.bodies[cs.node].path.startswith('frame::header::Header::') and ctx.f.bodies[cs.node].ret_ty == 'usize':
                            t_len |= fl.forward(set(fl.call_result_nodes(cs)), skip_mem=True)
                    if fl.op_tainted(a, t_len) or fl.op_tainted(bb, t_len):
                        len_adv.append(p)
        # the header advance may sit in the callee that decodes the header (peek and consume merged into one function):
        # a callee all of whose successful exits are dominated by a `cursor (+)= .. HEADER_LEN ..` store of its own
        for cs in b.calls:
            cb = ctx.f.bodies.get(cs.node) if cs.node is not None else None
            if cb is None or not cb.path.startswith(FRD) or 'frame::header::Header' not in cb.ret_ty:
                continue
            cadv = []
            for (p2, pl2, rv2) in stores_to(cb, 'FrameReader', 'cursor'):
                if rv2['k'] != 'use' or rv2['op']['k'] not in ('copy', 'move'):
                    continue
                af = cb.affine(rv2['op'], phi=True)
                hl = ctx.f.const_value('frame::header::HEADER_LEN')
                if af is not None and hl is not None and af[1] == hl and list(af[0].items()) in ([(('mem', 'FrameReader.cursor'), 1)],):
                    cadv.append(p2)
            oks = [e2['point'] for e2 in cb.ok_exits()]
            if cadv and oks and all(any(cb.dominates(p2, e2) for p2 in cadv) for e2 in oks):
                hdr_adv.append(cs.point)
        for e in b.exits():
            if e['kind'] == 'ok':
                n += 1
                o1 = any(b.dominates(p, e['point']) for p in hdr_adv)
                o2 = any(b.dominates(p, e['point']) for p in len_adv)
                ctx.check(o1 and o2, '%s:consumed' % b.path, where(b, e['point']), 'Ok(frame) dominated by cursor += HEADER_LEN and cursor += header.len()',
                          'a frame can be returned without the cursor having moved past its %s: the next read would start inside this frame' % ('header' if not o1 else 'payload'))
    if n == 0:
        ctx.missing('frame-exit', 'no Ok exit in the frame reading body')
    # the cursor moves past a header only once that header DECODED: recovery hands the cursor to the writer, which must
    # resume ON a torn / undecodable header (and overwrite it), not 7 bytes after it
    k = 0
    for b in ctx.f.bodies.values():
        if b.generic_dup() or not b.path.startswith(FRD):
            continue
        good = []
        for cs in b.calls:
            dl = cs.dest_local()
            if dl is None:
                continue
            ty = b.local_ty(dl)
            if cs.path.endswith('Header::deserialize') or (ty.startswith('std::result::Result<frame::header::Header,') and cs.node is not None):
                good += result_edges(b, dl)['ok']
        for (p, pl, rv) in stores_to(b, 'FrameReader', 'cursor'):
            if rv['k'] != 'use' or rv['op']['k'] not in ('copy', 'move'):
                continue
            ol = rv['op']['place']['l']
            adds = [(dp, data['rv']) for (dp, kind, data) in b.defs.get(ol, []) if kind == 'assign' and data['rv']['k'] == 'binop' and data['rv']['op'].startswith('Add')]
            if not any((op_const_named(a_['a']) or '').endswith('HEADER_LEN') or (op_const_named(a_['b']) or '').endswith('HEADER_LEN') for (_dp, a_) in adds):
                continue
            k += 1
            ctx.check(any(b.edge_dominates(e, p) for e in good), '%s:header-consumed-only-if-decoded#%d' % (b.path, k), where(b, p), 'cursor += HEADER_LEN under the success edge of the header decode',
                      'the cursor can move past a header that did not decode: after recovery the writer would resume behind a torn header instead of overwriting it, and everything written there is dropped at the next restart')


@rule('REC6', ['C02', 'C09', 'C03', 'C12', 'C18'], floor=1, template='no-reach')
def rec6(ctx):
    """The record reader never turns a VALID frame into an error: error exits are reachable only from the
    error arms of the frame reader's result (a valid First/Full frame after an unfinished entry starts a
    new entry, it is not dropped)."""
    if _rec_by_protocol(ctx, 'REC6'):
        return
    n = 0
    for b in rec_bodies(ctx):
        for cs in b.calls:
            dl = cs.dest_local()
            if cs.node is None or dl is None or 'frame::reader::ReadFrameError' not in b.local_ty(dl):
                continue
            known = alias_paths(b, dl)
            for (bi, pl, adt, edges) in b.discr_switches():
                if place_path(known, pl) == [()] and 'Ok' in edges:
                    n += 1
                    r = b.reach([edges['Ok'][1]], avoid=[cs.point])
                    bad = [e for e in b.exits() if e['kind'] in ('err', 'err_prop') and e['point'] in r]
                    ctx.check(not bad, '%s:valid-frame-never-errors' % b.path, where(b, cs.point), 'no error exit is reachable from the Ok(frame) edge',
                              'a frame that passed its CRC can make the record reader return an error (at %s): the valid entry it belongs to is dropped' % (b.loc(bad[0]['point']) if bad else '-'))
    if n == 0:
        ctx.missing('frame-result', 'no switch on the frame reader result in the record reader')


@rule('FR8b', ['C08', 'C02', 'C12', 'C18'], floor=2, template='error-not-dropped')
def fr8b(ctx):
    """Inside the reader stack a Corruption reported by a lower layer is never swallowed: it is propagated
    (only the replay loop, which knows nothing is being assembled across it, may skip it)."""
    n = 0
    seen_rr = False
    for b in ctx.f.bodies.values():
        if b.generic_dup() or not (b.path.startswith(FRD) or b.path.startswith(RR)):
            continue
        for cs in b.calls:
            dl = cs.dest_local()
            if cs.node is None or dl is None or not b.local_ty(dl).endswith('frame::reader::ReadFrameError>'):
                continue
            n += 1
            if b.path.startswith(RR):
                seen_rr = True
            key = '%s:%s' % (b.path, cs.path.split('::')[-1])
            known = alias_paths(b, dl)
            starts = []
            for (bi, pl, adt, edges) in b.discr_switches():
                for path in place_path(known, pl):
                    if path == (('v', 'Err'), ('f', '0')) and 'Corruption' in edges:
                        starts.append(edges['Corruption'][1])
            if not starts and any(e['kind'] == 'err_prop' and (e.get('call') is cs or cs in e.get('calls', ())) for e in b.exits()):
                ctx.ok(key, where(b, cs.point), '`?` propagates a Corruption from the lower layer')
                continue
            if not starts:
                for (bi, pl, adt, edges) in b.discr_switches():
                    for path in place_path(known, pl):
                        if path == () and 'Err' in edges:
                            starts.append(edges['Err'][1])
            if dl == 0:
                ctx.ok(key, where(b, cs.point), 'result returned as is')
                continue
            bad = None
            for s_ in starts:
                r = b.reach([s_])
                if cs.point in r:
                    bad = 'goes round and calls the lower layer again'
                for e in b.exits():
                    if e['point'] in r and e['kind'] in ('ok', 'some', 'none', 'value', 'forward'):
                        bad = 'reaches a successful return (%s)' % b.loc(e['point'])
                    if e['point'] in r and e['kind'] == 'err' and e.get('variant') not in ('Corruption',):
                        bad = 'is converted into %s' % e.get('variant')
            ctx.check(bool(starts) and bad is None, key, where(b, cs.point), 'the Corruption arm only leads to Err(Corruption)',
                      'a Corruption reported by the lower reader layer is swallowed here: the arm %s, so the record reader is never told that frames were skipped and splices the open entry with unrelated frames' % (bad or 'is missing'))
    # the two roles that must exist whatever the factoring: the record reader consumes the frame reader's result,
    # the frame reader consumes the block-advance result (helpers in between may come and go)
    if n < 2 or not seen_rr:
        ctx.missing('sites', 'expected the record reader -> frame reader and frame reader -> block advance error hand-overs, found %d site(s)' % n)


@rule('FR10', ['C08', 'C12'], floor=1, template='guard-dominates-exit')
def fr10(ctx):
    """A frame is accepted only if its checksum matches: `Header::check` answers true only under the equality of the
    computed checksum with the stored one -- no shortcut for "nothing to protect" (empty frames carry a frame type,
    and a forged empty First frame opens an entry that an intact Last frame completes)."""
    ck = ctx.fn('frame::header::Header::check')
    if not ck:
        ctx.missing('check', 'Header::check not found')
        return
    # with local helpers in place (`is_block_filler()`, a renamed checksum function ..)
    b = ctx.f.inlined(ck[0], lambda cb: not ('crc32fast' in cb.path) and len(cb.blocks) < 80, 'fr10')
    fl = flow_of(b)
    crc_nodes = set()
    for cs in b.calls:
        if 'crc32fast::Hasher' in cs.name and cs.name.endswith('::finalize'):
            crc_nodes |= fl.forward(set(fl.call_result_nodes(cs)))
        elif cs.node is not None and ctx.f.bodies[cs.node].ret_ty == 'u32':
            crc_nodes |= fl.forward(set(fl.call_result_nodes(cs)))
    def is_crc_eq(rv):
        return rv['k'] == 'binop' and rv['op'] in ('Eq',) and ((fl.op_tainted(rv['a'], crc_nodes) and 'Header.checksum' in str(fl.backward(set(fl.op_nodes(rv['b']))))) or
                                                                  (fl.op_tainted(rv['b'], crc_nodes) and 'Header.checksum' in str(fl.backward(set(fl.op_nodes(rv['a']))))))
    eq_true_edges = []
    for bi, blk in enumerate(b.blocks):
        if not b.live[bi] or blk['term']['k'] != 'switch':
            continue
        c = b.switch_cond(bi)
        if c and c['kind'] == 'bool':
            for o in c['origin']:
                if o[0] == 'rv' and is_crc_eq(o[2]):
                    e = b.bool_edges(bi)
                    if e:
                        eq_true_edges.append(e[0] if not c.get('neg') else e[1])
    n = 0
    for (p, kind, data) in b.defs.get(0, []):
        if not b.is_live_point(p):
            continue
        if kind == 'call':
            # the answer delegated to another predicate (`payload.is_empty()`): only under the matching-checksum edge
            n += 1
            ctx.check(any(b.edge_dominates(e, p) for e in eq_true_edges), 'check:true-only-if-crc-matches#%d' % n, where(b, p), 'the answer is the checksum comparison (or false)',
                      'Header::check can answer true without the computed checksum having matched the stored one: damaged bytes would be accepted as a frame')
            continue
        if kind != 'assign' or data['place']['p']:
            continue
        n += 1
        rv = data['rv']
        ok = False
        if is_crc_eq(rv):
            ok = True
        elif rv['k'] == 'use' and op_const_bits(rv['op']) == 0:
            ok = True
        elif rv['k'] == 'use' and op_local(rv['op']) is not None:
            org = b.trace_local(op_local(rv['op']))
            ok = bool(org) and all(o[0] == 'rv' and is_crc_eq(o[2]) for o in org)
        if not ok:
            ok = any(b.edge_dominates(e, p) for e in eq_true_edges)
        ctx.check(ok, 'check:true-only-if-crc-matches#%d' % n, where(b, p), 'the answer is the checksum comparison (or false)',
                  'Header::check can answer true without the computed checksum having matched the stored one: damaged bytes would be accepted as a frame')
    if n == 0:
        ctx.missing('answers', 'no assignment of the result found in Header::check')


def record_protocol(ctx):
    """What the record reader does with each outcome of the frame reader, by abstract interpretation (absint.py): for
    within_record in {false, true} and the frame reader answering Ok(Full | First | Middle | Last) or an error, whether
    the entry buffer is cleared / appended to, what within_record is afterwards, and whether the call returns (and what)
    or goes back to the frame reader. Independent of how the state machine is spelt (nested ifs, early continue,
    `within_record = !is_last`, a helper taking the two fields ..).
    Returns {'table': {(within, outcome): set of (cleared, appended, within_after, result)}, 'exhausted': bool} or None."""
    if hasattr(ctx, '_record_protocol'):
        return ctx._record_protocol
    from absint import AbsInt, Path, UNK
    res = None
    FT = 'frame::header::FrameType'
    for b in rec_bodies(ctx):
        if b.generic_dup():
            continue
        rf = [cs for cs in b.calls if cs.dest_local() is not None and 'frame::reader::ReadFrameError' in b.local_ty(cs.dest_local())]
        if not rf:
            continue
        cs0 = rf[0]
        clears = {cs.point for cs in calls_on_field(b, r'Vec::<u8>::(clear|truncate)$', 'RecordReader', 'record_buffer')}
        apps = {cs.point for cs in calls_on_field(b, r'Vec::<u8>::(extend_from_slice|extend|push|append|resize|insert)', 'RecordReader', 'record_buffer')}
        R = 'std::result::Result'
        RFE = 'frame::reader::ReadFrameError'
        outcomes = [('Ok:%s' % v, ('adt', R, 'Ok', (('tup', (('adt', FT, v, ()), UNK)),))) for v in ('Full', 'First', 'Middle', 'Last')] + \
                   [('Err:%s' % v, ('adt', R, 'Err', (('adt', RFE, v, (UNK,) if v == 'IoError' else ()),))) for v in ('Corruption', 'NotAvailable', 'IoError')]
        table = {}
        ai = AbsInt(ctx)
        for within in (0, 1):
            for (oname, oval) in outcomes:
                def on_call(p, cs, args, oval=oval):
                    if cs is cs0:
                        if p.data.get('fed'):
                            return [(UNK, {'data': {'again': True}})]
                        return [(oval, {'data': {'fed': True}})]
                    # only what is done with *this* frame counts: a clear before the frame was read (at the top of the
                    # call, say) happens once per call, not once per First / Full frame
                    if cs.point in clears:
                        if p.data.get('fed') and p.data.get('appended'):
                            return [(UNK, {'data': {'appended': False, 'cleared': False}})]      # wiped what it had just appended
                        return [(UNK, {'data': {'cleared': True} if p.data.get('fed') else {}})]
                    if cs.point in apps:
                        return [(UNK, {'data': {'appended': True} if p.data.get('fed') else {}})]
                    return None
                def on_block(p, bi):
                    if p.data.get('again'):
                        return 'again'
                    return None
                outs = ai.run(b, Path(b.points[b.entry][0], {('m', 'RecordReader.within_record'): ('i', within)}, {}, [], {}), on_call=on_call, on_block=on_block)
                for (kind, p) in outs:
                    if kind not in ('again', 'return'):
                        continue
                    wa = p.env.get(('m', 'RecordReader.within_record'), UNK)
                    wa = wa[1] if isinstance(wa, tuple) and wa and wa[0] == 'i' else None
                    if kind == 'again':
                        r_ = 'again'
                    else:
                        v = p.env.get(0, UNK)
                        r_ = '?'
                        if isinstance(v, tuple) and v and v[0] == 'adt' and v[2] == 'Ok' and v[3] and isinstance(v[3][0], tuple) and v[3][0][0] == 'i':
                            r_ = 'Ok(%s)' % ('true' if v[3][0][1] else 'false')
                        elif isinstance(v, tuple) and v and v[0] == 'adt' and v[2] == 'Err' and v[3] and isinstance(v[3][0], tuple) and v[3][0][0] == 'adt':
                            r_ = 'Err(%s)' % v[3][0][2]
                    table.setdefault((bool(within), oname), set()).add((bool(p.data.get('cleared')), bool(p.data.get('appended')), wa, r_))
        res = {'table': table, 'exhausted': ai.exhausted, 'body': b}
        break
    ctx._record_protocol = res
    return res
