#!/bin/bash
# usage: scratch.sh <patch-file|-> <out-dir> [mode]   -> copies /repo sources to <out-dir>/repo, applies patch, extracts facts to <out-dir>/facts
set -e
PATCH="$1"; OUT="$2"; MODE="${3:-lib}"
SRC="${MRL_REPO:-/repo}"
rm -rf "$OUT"; mkdir -p "$OUT/repo"
( cd "$SRC" && tar cf - --exclude=./target --exclude=./.git . ) | ( cd "$OUT/repo" && tar xf - )
if [ "$PATCH" != "-" ]; then
  ( cd "$OUT/repo" && patch -p1 -s --no-backup-if-mismatch < "$PATCH" ) || { echo "PATCH-FAILED $PATCH"; exit 3; }
fi
/verif/driver/run.sh "$OUT/repo" "$OUT/facts" scratch "$MODE"
